// gosym: solver-based checking of golang-utils properties.
//
//	gosym check <ID> <quick|thorough>
//	gosym replay <replay.json>
package main

import (
	"encoding/json"
	"regexp"
	"fmt"
	"os"
	"os/exec"
	"path/filepath"
	"sort"
	"strconv"
	"strings"
	"time"

	"gosym/interp"
)

const modPath = "github.com/ARM-software/golang-utils/utils"

// The registered commands run from /verif against /repo. A copy of /verif
// (a snapshot, or the scratch copy the seed regression works in) finds itself
// through VERIF_ROOT, which ./check sets to its own directory; VERIF_REPO points
// the scratch copy at a scratch worktree instead of /repo.
var (
	verifRoot  = envOr("VERIF_ROOT", "/verif")
	repoModule = filepath.Join(envOr("VERIF_REPO", "/repo"), "utils")
)

func envOr(name, def string) string {
	if v := os.Getenv(name); v != "" {
		return v
	}
	return def
}

type tierSpec struct {
	MaxSteps     int64 `json:"max_steps"`
	MaxDecisions int   `json:"max_decisions"`
	MaxPicks     int   `json:"max_picks"`
	MaxPaths     int   `json:"max_paths"`
	TimeoutMs    int   `json:"solver_timeout_ms"`
	Validate     int   `json:"validate_paths"`
	CrossSolver  string `json:"cross_solver"`
	MaxWallSec   int    `json:"max_wall_s"`
}

type unitSpec struct {
	Pkg       string            `json:"pkg"`
	Files     []string          `json:"files"`
	Overrides map[string]string `json:"overrides"`
	ExtraPkgs []string          `json:"extra_pkgs"`
	NoNative  bool              `json:"no_native"`
	NativeRetries int           `json:"native_retries"`
}

type spec struct {
	Units      []unitSpec          `json:"units"`
	NativeRetries int              `json:"native_retries"`
	Property   string              `json:"property"`
	Pkg        string              `json:"pkg"` // directory below utils/, e.g. "safecast"
	Files      []string            `json:"files"`
	Prefix     string              `json:"prefix"`
	Overrides  map[string]string   `json:"overrides"`
	Level      string              `json:"level"`
	Bounds     map[string]string   `json:"bounds"`
	Stubs      []string            `json:"stubs"`
	Assumptions []string           `json:"assumptions"`
	Outside    []string            `json:"outside"`
	Tiers      map[string]tierSpec `json:"tiers"`
	ExtraPkgs  []string            `json:"extra_pkgs"`
	BuildTags  string              `json:"build_tags"`        // build tags for the engine's load AND the native replay binary
	EngineBuildTags string         `json:"engine_build_tags"` // build tags for the engine's load only (e.g. pure-Go variants of code that is assembly / unsafe by default)
	NativeTimeoutS int             `json:"native_timeout_s"` // deadline of one native replay (default 60)
	QuickSkip  []string            `json:"quick_skip"` // harness name substrings only run in the thorough tier
	NoNative   bool                `json:"no_native"`
	Solver     string              `json:"solver"`     // z3 (default) | z3-new | cvc5  // harness cannot be replayed natively (schedule exploration)
}

type knownFinding struct {
	Property string `json:"property"`
	ID       string `json:"id"`
	What     string `json:"what"`
	Status   string `json:"status"` // known | fixed
	Commit   string `json:"commit,omitempty"`
}

func main() {
	if len(os.Args) < 2 {
		usage()
	}
	for _, kv := range goEnv() {
		k, v, _ := strings.Cut(kv, "=")
		os.Setenv(k, v)
	}
	switch os.Args[1] {
	case "check":
		if len(os.Args) < 4 {
			usage()
		}
		os.Exit(check(os.Args[2], os.Args[3], os.Args[4:]))
	case "replay":
		if len(os.Args) < 3 {
			usage()
		}
		os.Exit(replay(os.Args[2]))
	default:
		usage()
	}
}

// replay runs the harness named in a replay file natively (against the real
// build of /repo's current tree) with the inputs it records.
func replay(file string) int {
	b, err := os.ReadFile(file)
	if err != nil {
		fmt.Fprintln(os.Stderr, "gosym:", err)
		return 2
	}
	var rf struct {
		Property string `json:"property"`
		Harness  string `json:"harness"`
		Tier     int    `json:"tier"`
	}
	if err := json.Unmarshal(b, &rf); err != nil || rf.Property == "" || rf.Harness == "" {
		fmt.Fprintln(os.Stderr, "gosym: not a replay file:", file)
		return 2
	}
	s, err := loadSpec(rf.Property)
	if err != nil {
		fmt.Fprintln(os.Stderr, "gosym:", err)
		return 2
	}
	units := s.Units
	if len(units) == 0 {
		units = []unitSpec{{Pkg: s.Pkg, Files: s.Files, NoNative: s.NoNative}}
	}
	re := regexp.MustCompile(`(?m)^func (Verif[A-Za-z0-9_]+)\(\)`)
	for _, u := range units {
		us := *s
		us.Pkg, us.Files = u.Pkg, u.Files
		var names []string
		found := false
		for _, f := range u.Files {
			src, err := os.ReadFile(filepath.Join(verifRoot, "harness", rf.Property, f))
			if err != nil {
				continue
			}
			for _, m := range re.FindAllStringSubmatch(string(src), -1) {
				if strings.HasPrefix(m[1], s.Prefix) || strings.HasPrefix(m[1], "Verif"+rf.Property+"_") {
					names = append(names, m[1])
					if m[1] == rf.Harness {
						found = true
					}
				}
			}
		}
		if !found {
			continue
		}
		if u.NoNative {
			fmt.Println("gosym: harness", rf.Harness, "explores schedules; its counterexamples are decision sequences of the engine and cannot be replayed natively (re-run `check", rf.Property, "quick", rf.Harness+"`)")
			return 2
		}
		abs, _ := filepath.Abs(file)
		nat := &native{id: rf.Property, spec: &us, overlay: overlayFiles(rf.Property, &us), harnesses: names, tier: rf.Tier}
		defer nat.cleanup()
		out, err := nat.run(abs)
		for _, line := range strings.Split(out, "\n") {
			if strings.HasPrefix(line, "VERIF-") || strings.HasPrefix(line, "fatal error") || strings.HasPrefix(line, "--- ") {
				fmt.Println(line)
			}
		}
		if err != nil {
			fmt.Fprintln(os.Stderr, "gosym:", err)
			return 2
		}
		if strings.Contains(out, "panic: test timed out") {
			// the native run never finished: show where it hangs
			if k := strings.Index(out, "panic: test timed out"); k >= 0 {
				fmt.Println(tail(out[k:], 400))
			}
			fmt.Printf("VIOLATION property=%s replay=%s\n", rf.Property, abs)
			return 1
		}
		if strings.Contains(out, "VERIF-ASSERT-FAIL") || strings.Contains(out, "VERIF-PANIC") || strings.Contains(out, "fatal error:") {
			fmt.Printf("VIOLATION property=%s replay=%s\n", rf.Property, abs)
			return 1
		}
		return 0
	}
	fmt.Fprintln(os.Stderr, "gosym: harness", rf.Harness, "not found in property", rf.Property)
	return 2
}

func usage() {
	fmt.Fprintln(os.Stderr, "usage: gosym check <ID> <quick|thorough> [harness-substring] | gosym replay <file.replay.json>")
	os.Exit(2)
}

func goEnv() []string {
	goroot := os.Getenv("VERIF_GOROOT")
	if goroot == "" {
		goroot = "/root/go/pkg/mod/golang.org/toolchain@v0.0.1-go1.24.1.linux-amd64"
	}
	return []string{
		"GOTOOLCHAIN=local", "GOROOT=" + goroot, "PATH=" + goroot + "/bin:" + os.Getenv("PATH"),
		"GOFLAGS=-mod=mod", "GOPROXY=off", "CGO_ENABLED=0",
	}
}

func loadSpec(id string) (*spec, error) {
	b, err := os.ReadFile(filepath.Join(verifRoot, "harness", id, "spec.json"))
	if err != nil {
		return nil, err
	}
	var s spec
	if err := json.Unmarshal(b, &s); err != nil {
		return nil, err
	}
	if s.Prefix == "" {
		s.Prefix = "Verif" + id + "_"
	}
	return &s, nil
}

func loadKnown() []knownFinding {
	b, err := os.ReadFile(filepath.Join(verifRoot, "known_findings.json"))
	if err != nil {
		return nil
	}
	var k []knownFinding
	if err := json.Unmarshal(b, &k); err != nil {
		fmt.Fprintln(os.Stderr, "gosym: bad known_findings.json:", err)
		os.Exit(2)
	}
	return k
}

// overlayFiles returns virtual path -> real path for the harness overlay.
func overlayFiles(id string, s *spec) map[string]string {
	m := map[string]string{
		filepath.Join(repoModule, "zz_verif/verif/verif.go"): filepath.Join(verifRoot, "harness/verif/verif.go"),
	}
	for _, f := range s.Files {
		m[filepath.Join(repoModule, s.Pkg, "zz_verif_"+strings.ToLower(id)+"_"+filepath.Base(f))] = filepath.Join(verifRoot, "harness", id, f)
	}
	return m
}

// retarget rewrites the package clause of a shared harness file (harness/common/*) to the
// package it is overlaid into.
func joinTags(a, b string) string {
	if a == "" {
		return b
	}
	if b == "" {
		return a
	}
	return a + "," + b
}

func retarget(src []byte, pkgName string) []byte {
	lines := strings.SplitN(string(src), "\n", 2)
	for off := 0; ; {
		nl := strings.IndexByte(string(src[off:]), '\n')
		if nl < 0 {
			break
		}
		line := strings.TrimSpace(string(src[off : off+nl]))
		if strings.HasPrefix(line, "package ") {
			if strings.Fields(line)[1] == pkgName {
				return src
			}
			out := append([]byte{}, src[:off]...)
			out = append(out, []byte("package "+pkgName)...)
			out = append(out, src[off+nl:]...)
			return out
		}
		off += nl + 1
	}
	_ = lines
	return src
}

type evidence struct {
	PropertyID string                 `json:"property_id"`
	Tier       string                 `json:"tier"`
	Seed       int64                  `json:"seed"`
	Level      string                 `json:"level"`
	Coverage   map[string]interface{} `json:"coverage"`
	Assumptions []string              `json:"assumptions"`
	WallS      float64                `json:"wall_s"`
	Violations int                    `json:"violations"`
}

type accum struct {
	paths, completed, infeasible int
	steps, decisions             int64
	queries, sat, unsat, unknown int
	solverNs                     int64
	solverMaxNs                  int64
	validated, valMismatch       int
	violLines                    []string
	knownLines                   []string
	samples                      []interface{}
	funcs                        map[string]int64
	assertsChecked               map[string]int
	unsupportedAll               map[string]int
	knownSeen                    map[string]int
	confirmedViol                int
	machineryFail                []string
	names                        []string
	loadSec                      float64
	crossNotes                   []string
	overrides                    map[string]string
}

func (a *accum) fail(format string, args ...interface{}) {
	a.machineryFail = append(a.machineryFail, fmt.Sprintf(format, args...))
}

func check(id, tier string, rest []string) int {
	t0 := time.Now()
	filter := ""
	if len(rest) > 0 {
		filter = rest[0]
	}
	s, err := loadSpec(id)
	if err != nil {
		fmt.Fprintln(os.Stderr, "gosym:", err)
		return 2
	}
	ts := s.Tiers[tier]
	seed := int64(1)
	if v := os.Getenv("VERIF_SEED"); v != "" {
		if n, err := strconv.ParseInt(v, 10, 64); err == nil {
			seed = n
		}
	}
	units := s.Units
	if len(units) == 0 {
		units = []unitSpec{{Pkg: s.Pkg, Files: s.Files, Overrides: s.Overrides, ExtraPkgs: s.ExtraPkgs, NoNative: s.NoNative, NativeRetries: s.NativeRetries}}
	}
	outDir := filepath.Join(verifRoot, "out", id)
	os.RemoveAll(outDir)
	os.MkdirAll(outDir, 0o755)
	acc := &accum{funcs: map[string]int64{}, assertsChecked: map[string]int{}, unsupportedAll: map[string]int{}, knownSeen: map[string]int{}, overrides: map[string]string{}}
	solverUsed := firstNonEmpty(os.Getenv("GOSYM_SOLVER"), s.Solver)
	for _, u := range units {
		if rc := runUnit(id, tier, s, ts, u, seed, filter, outDir, acc); rc != 0 {
			return rc
		}
	}
	if len(acc.names) == 0 {
		fmt.Fprintln(os.Stderr, "gosym: no harness functions found with prefix", s.Prefix)
		return 2
	}

	// function inventory
	type fc struct {
		Name  string `json:"name"`
		Calls int64  `json:"calls"`
	}
	var repoFns, depFns []fc
	stdN := 0
	for f, n := range acc.funcs {
		switch {
		case strings.Contains(f, "zz_verif") || strings.Contains(f, ".Verif") || strings.Contains(f, ".v"):
		case strings.Contains(f, modPath):
			repoFns = append(repoFns, fc{strings.ReplaceAll(f, modPath+"/", ""), n})
		default:
			first := strings.TrimLeft(f, "(*")
			if k := strings.Index(first, "/"); k >= 0 {
				first = first[:k]
			}
			if strings.Contains(first, ".") && strings.Contains(f, "/") {
				depFns = append(depFns, fc{f, n})
			} else {
				stdN++
			}
		}
	}
	sort.Slice(repoFns, func(a, b int) bool { return repoFns[a].Calls > repoFns[b].Calls })
	sort.Slice(depFns, func(a, b int) bool { return depFns[a].Calls > depFns[b].Calls })
	if len(repoFns) > 80 {
		repoFns = repoFns[:80]
	}
	if len(depFns) > 30 {
		depFns = depFns[:30]
	}

	level := s.Level
	if level == "" {
		level = "model_checking"
	}
	if len(acc.samples) == 0 {
		acc.samples = append(acc.samples, map[string]interface{}{"note": "no completed path sampled"})
	}
	ev := evidence{
		PropertyID: id, Tier: tier, Seed: seed, Level: level, WallS: time.Since(t0).Seconds(), Violations: acc.confirmedViol,
		Assumptions: append(append([]string{}, s.Assumptions...), prefixAll("stub: ", s.Stubs)...),
		Coverage: map[string]interface{}{
			"states":                        acc.completed,
			"transitions":                   acc.steps,
			"traces_validated_against_impl": acc.validated,
			"samples":                       acc.samples,
			"evaluations":                   acc.paths,
			"distinct_nontrivial":           acc.completed,
			"rule":                          "one evaluation = one symbolic path (equivalence class of inputs driving the code down the same branches) explored by DFS over solver-checked branch decisions; a path is non-trivial when it ran to completion (or to a failed assertion) under a satisfiable path condition",
			"exhaustive":                    len(acc.machineryFail) == 0,
			"harnesses":                     acc.names,
			"paths_total":                   acc.paths,
			"paths_completed":               acc.completed,
			"paths_infeasible":              acc.infeasible,
			"decisions":                     acc.decisions,
			"assertions_checked":            acc.assertsChecked,
			"queries":                       acc.queries,
			"queries_sat":                   acc.sat,
			"queries_unsat":                 acc.unsat,
			"queries_unknown":               acc.unknown,
			"solver_s":                      float64(acc.solverNs) / 1e9,
			"solver_max_query_s":            float64(acc.solverMaxNs) / 1e9,
			"solver_timeout_s":              float64(ts.TimeoutMs) / 1000,
			"solver":                        solverName(solverUsed),
			"functions_encoded_repo":        repoFns,
			"functions_encoded_deps":        depFns,
			"functions_encoded_stdlib":      stdN,
			"bounds":                        s.Bounds,
			"outside_claim":                 s.Outside,
			"overrides":                     acc.overrides,
			"unsupported_aborts":            acc.unsupportedAll,
			"known_findings_seen":           acc.knownSeen,
			"encoding_mismatches":           acc.valMismatch,
			"machinery_failures":            acc.machineryFail,
			"load_s":                        acc.loadSec,
			"cross_solver":                  strings.Join(acc.crossNotes, "; "),
		},
	}
	os.MkdirAll(filepath.Join(verifRoot, "evidence"), 0o755)
	eb, _ := json.MarshalIndent(ev, "", " ")
	if err := os.WriteFile(filepath.Join(verifRoot, "evidence", id+".json"), eb, 0o644); err != nil {
		fmt.Fprintln(os.Stderr, "gosym:", err)
		return 2
	}

	for _, l := range acc.knownLines {
		fmt.Println(l)
	}
	for _, l := range acc.violLines {
		fmt.Println(l)
	}
	fmt.Printf("gosym: %s %s: harnesses=%d paths=%d completed=%d queries=%d (unsat %d, sat %d) solver=%.1fs validated=%d wall=%.1fs\n",
		id, tier, len(acc.names), acc.paths, acc.completed, acc.queries, acc.unsat, acc.sat, float64(acc.solverNs)/1e9, acc.validated, time.Since(t0).Seconds())
	if len(acc.violLines) > 0 {
		return 1
	}
	if len(acc.machineryFail) > 0 {
		for _, m := range acc.machineryFail {
			fmt.Fprintln(os.Stderr, "gosym: INCONCLUSIVE:", m)
		}
		return 2
	}
	return 0
}

func runUnit(id, tier string, s *spec, ts tierSpec, u unitSpec, seed int64, filter, outDir string, acc *accum) int {
	us := *s
	us.Pkg, us.Files, us.Overrides, us.ExtraPkgs, us.NoNative = u.Pkg, u.Files, u.Overrides, u.ExtraPkgs, u.NoNative
	sp := &us
	ov := overlayFiles(id, sp)
	overlay := map[string][]byte{}
	for virt, real := range ov {
		b, err := os.ReadFile(real)
		if err != nil {
			fmt.Fprintln(os.Stderr, "gosym:", err)
			return 2
		}
		if pn, perr := packageName(filepath.Join(repoModule, sp.Pkg)); perr == nil && strings.Contains(virt, "/zz_verif_"+strings.ToLower(id)+"_") {
			b = retarget(b, pn)
		}
		overlay[virt] = b
	}
	cfg := &interp.Config{
		Dir:        repoModule,
		Patterns:   append([]string{"./" + sp.Pkg, "./zz_verif/verif"}, sp.ExtraPkgs...),
		Overlay:    overlay,
		Env:        goEnv(),
		BuildTags:  joinTags(s.BuildTags, s.EngineBuildTags),
		Solver:     firstNonEmpty(os.Getenv("GOSYM_SOLVER"), s.Solver),
		TimeoutMs:  ts.TimeoutMs,
		Seed:       seed,
		SampleN:    ts.Validate,
		MaxPaths:   ts.MaxPaths,
		MaxWallSec: ts.MaxWallSec,
		Verbose:    os.Getenv("GOSYM_VERBOSE") != "",
		Trace:      os.Getenv("GOSYM_TRACE") != "",
	}
	if tier == "thorough" {
		cfg.Tier = 1
	}
	if w := os.Getenv("GOSYM_WORKERS"); w != "" {
		cfg.Workers, _ = strconv.Atoi(w)
	}
	cfg.Limits = interp.DefaultLimits()
	if ts.MaxSteps > 0 {
		cfg.Limits.MaxSteps = ts.MaxSteps
	}
	if ts.MaxDecisions > 0 {
		cfg.Limits.MaxDecisions = ts.MaxDecisions
	}
	if ts.MaxPicks > 0 {
		cfg.Limits.MaxPicks = ts.MaxPicks
	}
	if cfg.SampleN == 0 {
		cfg.SampleN = 4
	}
	prog, err := interp.Load(cfg)
	if err != nil {
		fmt.Fprintln(os.Stderr, "gosym: load:", err)
		return 2
	}
	acc.loadSec += prog.LoadSec
	pkgPath := modPath + "/" + sp.Pkg
	for target, hf := range sp.Overrides {
		if err := prog.RegisterOverride(target, pkgPath, hf); err != nil {
			fmt.Fprintln(os.Stderr, "gosym:", err)
			return 2
		}
		acc.overrides[target] = hf
	}
	all := prog.Harnesses(pkgPath, s.Prefix)
	var names []string
	for _, n := range all {
		if strings.HasSuffix(filter, "$") {
			if !strings.HasSuffix(n, strings.TrimSuffix(filter, "$")) {
				continue
			}
		} else if filter != "" && !strings.Contains(n, filter) {
			continue
		}
		skip := false
		if tier == "quick" {
			for _, q := range s.QuickSkip {
				if strings.Contains(n, q) {
					skip = true
				}
			}
		}
		if !skip {
			names = append(names, n)
		}
	}
	if len(names) == 0 {
		return 0
	}
	acc.names = append(acc.names, names...)
	fmt.Fprintf(os.Stderr, "gosym: %s %s: %s loaded in %.1fs, %d harnesses\n", id, tier, sp.Pkg, prog.LoadSec, len(names))

	results := prog.ExploreAll(pkgPath, names)
	if cfg.Verbose {
		for _, r := range results {
			fmt.Fprintf(os.Stderr, "  %s: paths=%d completed=%d infeasible=%d viol=%d known=%d unsupported=%d bound=%d solverfail=%d queries=%d solver=%.1fs wall=%.1fs\n",
				r.Harness, r.Paths, r.Completed, r.Infeasible, len(r.Violations), len(r.Known), len(r.Unsupported), len(r.BoundHits), len(r.SolverFail),
				r.Solver.Queries, float64(r.Solver.SolverNs)/1e9, r.WallSec)
		}
	}

	// ---- cross-check with a second solver (thorough tier) ----
	if ts.CrossSolver != "" && ts.CrossSolver != cfg.Solver {
		prog.SetSolver(ts.CrossSolver)
		t1 := time.Now()
		res2 := prog.ExploreAll(pkgPath, names)
		nd := 0
		for k, r := range results {
			r2 := res2[k]
			if len(r.Violations) != len(r2.Violations) || len(r.Known) != len(r2.Known) || r.Completed != r2.Completed || len(r2.SolverFail) > 0 {
				nd++
				acc.fail("%s: solvers disagree (%s: completed=%d violations=%d known=%d; %s: completed=%d violations=%d known=%d solverfail=%d)",
					r.Harness, solverName(cfg.Solver), r.Completed, len(r.Violations), len(r.Known), solverName(ts.CrossSolver), r2.Completed, len(r2.Violations), len(r2.Known), len(r2.SolverFail))
			}
		}
		acc.crossNotes = append(acc.crossNotes, fmt.Sprintf("%s: all %d harnesses re-explored with %s in %.1fs: %d disagreement(s)", sp.Pkg, len(names), solverName(ts.CrossSolver), time.Since(t1).Seconds(), nd))
		prog.SetSolver(cfg.Solver)
	}

	// ---- native side: build the replay binary once ----
	nat := &native{id: id, spec: sp, overlay: ov, harnesses: all, tier: cfg.Tier, retries: u.NativeRetries}
	defer nat.cleanup()
	fail := acc.fail

	known := loadKnown()
	knownListed := map[string]knownFinding{}
	for _, k := range known {
		if k.Property == id && k.Status != "fixed" {
			knownListed[k.ID] = k
		}
	}
	for _, r := range results {
		acc.paths += r.Paths
		acc.completed += r.Completed
		acc.infeasible += r.Infeasible
		acc.steps += r.Steps
		acc.decisions += r.Decisions
		acc.queries += r.Solver.Queries
		acc.sat += r.Solver.Sat
		acc.unsat += r.Solver.Unsat
		acc.unknown += r.Solver.Unknown
		acc.solverNs += r.Solver.SolverNs
		if r.Solver.MaxNs > acc.solverMaxNs {
			acc.solverMaxNs = r.Solver.MaxNs
		}
		for f, n := range r.Funcs {
			acc.funcs[f] += n
		}
		for a, n := range r.Asserts {
			acc.assertsChecked[r.Harness+"/"+a] += n
		}
		for m, n := range r.Unsupported {
			acc.unsupportedAll[r.Harness+": "+m] += n
		}
		for m, n := range r.BoundHits {
			fail("%s: bound exceeded on %d path(s): %s", r.Harness, n, m)
		}
		for m, n := range r.SolverFail {
			fail("%s: solver inconclusive on %d path(s): %s", r.Harness, n, m)
		}
		if r.Truncated {
			fail("%s: path or time limit reached (max_paths=%d max_wall_s=%d)", r.Harness, cfg.MaxPaths, cfg.MaxWallSec)
		}
		if r.Completed == 0 {
			fail("%s: no path completed (vacuous)", r.Harness)
		}
		if len(r.Asserts) == 0 && len(r.Violations) == 0 && len(r.Known) == 0 {
			fail("%s: no assertion was reached (vacuous)", r.Harness)
		}
		for m, n := range r.Unsupported {
			fail("%s: unsupported construct on %d path(s): %s", r.Harness, n, m)
		}
		// translator validation on sampled completed paths
		for k, sm := range r.Samples {
			if !sp.NoNative {
				rp := filepath.Join(outDir, fmt.Sprintf("%s-sample%d.replay.json", r.Harness, k))
				nat.writeReplay(rp, r.Harness, sm.Inputs)
				out, err := nat.run(rp)
				if err != nil {
					fail("%s: native replay failed: %v", r.Harness, err)
					continue
				}
				ok, why := compareNative(out, sm.Observes, sm.FailsAll)
				// harnesses with native non-determinism (real time, real randomness) declare retries:
				// the engine's path is one admissible native behaviour, so one agreeing run suffices
				for t := 0; !ok && t < nat.retries; t++ {
					if out, err = nat.run(rp); err != nil {
						break
					}
					ok, why = compareNative(out, sm.Observes, sm.FailsAll)
				}
				if ok {
					acc.validated++
					os.Remove(rp)
				} else {
					acc.valMismatch++
					fail("%s: ENCODING-MISMATCH on %s: %s", r.Harness, rp, why)
				}
			}
			if len(acc.samples) < 8 && k < 2 {
				acc.samples = append(acc.samples, map[string]interface{}{"harness": r.Harness, "inputs": sm.Inputs, "path_condition": sm.PCSample, "observed": sm.Observes, "decisions": sm.Decisions})
			}
		}
		// known findings
		for kid, n := range r.Known {
			v := r.KnownSample[kid]
			rp := filepath.Join(outDir, fmt.Sprintf("%s-known-%s.replay.json", r.Harness, kid))
			nat.writeReplay(rp, r.Harness, v.Inputs)
			confirmed := sp.NoNative
			if !sp.NoNative {
				ok, err := nat.confirms(rp, v.AssertID)
				if err != nil {
					fail("%s: native replay of known finding failed: %v", r.Harness, err)
					continue
				}
				confirmed = ok
			}
			if !confirmed {
				fail("%s: counterexample for %s (%s) did not reproduce natively: %s", r.Harness, v.AssertID, kid, rp)
				continue
			}
			if kf, listed := knownListed[kid]; listed {
				acc.knownSeen[kid] += n
				acc.knownLines = append(acc.knownLines, fmt.Sprintf("KNOWN-FINDING: property=%s %s: %s (harness %s, assertion %s, %d path(s); replay=%s)", id, kid, kf.What, r.Harness, v.AssertID, n, rp))
			} else {
				acc.confirmedViol++
				acc.violLines = append(acc.violLines, fmt.Sprintf("VIOLATION property=%s replay=%s", id, rp))
				fmt.Fprintf(os.Stderr, "  violation (region %s not listed as known): %s assertion %s inputs=%v\n", kid, r.Harness, v.AssertID, v.Inputs)
			}
		}
		// new violations
		for k, v := range r.Violations {
			rp := filepath.Join(outDir, fmt.Sprintf("%s-violation%d.replay.json", r.Harness, k))
			nat.writeReplay(rp, r.Harness, v.Inputs)
			if sp.NoNative {
				acc.confirmedViol++
				acc.violLines = append(acc.violLines, fmt.Sprintf("VIOLATION property=%s replay=%s", id, rp))
				fmt.Fprintf(os.Stderr, "  violation: %s assertion %s: %s inputs=%v\n", r.Harness, v.AssertID, v.Msg, v.Inputs)
			} else {
				ok, err := nat.confirms(rp, v.AssertID)
				if err != nil {
					fail("%s: native replay of violation failed: %v", r.Harness, err)
					continue
				}
				if ok {
					acc.confirmedViol++
					acc.violLines = append(acc.violLines, fmt.Sprintf("VIOLATION property=%s replay=%s", id, rp))
					fmt.Fprintf(os.Stderr, "  violation: %s assertion %s: %s inputs=%v\n", r.Harness, v.AssertID, v.Msg, v.Inputs)
				} else {
					fail("%s: counterexample for assertion %s did not reproduce natively (encoding or stub error): %s [%s]", r.Harness, v.AssertID, rp, v.Msg)
				}
			}
			if k >= 4 {
				break
			}
		}
	}
	return 0
}

func solverName(s string) string {
	switch s {
	case "", "z3":
		return "z3 4.8.12 (z3 -in)"
	case "cvc5":
		return "cvc5 1.0 (--incremental)"
	case "z3-new":
		return "z3 5.1.0 (z3-new -in)"
	}
	return s
}

func firstNonEmpty(xs ...string) string {
	for _, x := range xs {
		if x != "" {
			return x
		}
	}
	return ""
}

func prefixAll(p string, xs []string) []string {
	var r []string
	for _, x := range xs {
		r = append(r, p+x)
	}
	return r
}

// ---- native replay ----

type native struct {
	id        string
	spec      *spec
	overlay   map[string]string
	harnesses []string
	tier      int
	retries   int
	dir       string
	bin       string
	built     bool
	buildErr  error
}

func (n *native) build() error {
	if n.built {
		return n.buildErr
	}
	n.built = true
	dir, err := os.MkdirTemp("", "gosym-native-")
	if err != nil {
		n.buildErr = err
		return err
	}
	n.dir = dir
	// generated replay test
	var sb strings.Builder
	pkgName := filepath.Base(n.spec.Pkg)
	if n.spec.Pkg == "http" {
		pkgName = "http"
	}
	pn, err := packageName(filepath.Join(repoModule, n.spec.Pkg))
	if err == nil {
		pkgName = pn
	}
	fmt.Fprintf(&sb, "package %s\n\nimport (\n\t\"testing\"\n\t\"%s/zz_verif/verif\"\n)\n\nfunc TestVerifReplay(t *testing.T) {\n\tfailed, err := verif.RunReplay(map[string]func(){\n", pkgName, modPath)
	for _, h := range n.harnesses {
		fmt.Fprintf(&sb, "\t\t%q: %s,\n", h, h)
	}
	sb.WriteString("\t})\n\tif err != nil {\n\t\tt.Fatal(err)\n\t}\n\tif len(failed) > 0 {\n\t\tt.Fatalf(\"failed assertions: %v\", failed)\n\t}\n}\n")
	testFile := filepath.Join(dir, "zz_verif_replay_test.go")
	if err := os.WriteFile(testFile, []byte(sb.String()), 0o644); err != nil {
		n.buildErr = err
		return err
	}
	ov := map[string]string{}
	for k, v := range n.overlay {
		ov[k] = v
		if strings.Contains(k, "/zz_verif_"+strings.ToLower(n.id)+"_") {
			if b, rerr := os.ReadFile(v); rerr == nil {
				if nb := retarget(b, pkgName); len(nb) != len(b) || string(nb) != string(b) {
					cp := filepath.Join(dir, "retargeted_"+filepath.Base(k))
					if werr := os.WriteFile(cp, nb, 0o644); werr == nil {
						ov[k] = cp
					}
				}
			}
		}
	}
	ov[filepath.Join(repoModule, n.spec.Pkg, "zz_verif_replay_test.go")] = testFile
	ob, _ := json.Marshal(map[string]interface{}{"Replace": ov})
	ovFile := filepath.Join(dir, "overlay.json")
	os.WriteFile(ovFile, ob, 0o644)
	n.bin = filepath.Join(dir, "replay.test")
	args := []string{"test", "-c", "-vet=off", "-overlay", ovFile, "-o", n.bin}
	if n.spec.BuildTags != "" {
		args = append(args, "-tags", n.spec.BuildTags)
	}
	cmd := exec.Command("go", append(args, "./"+n.spec.Pkg)...)
	cmd.Dir = repoModule
	cmd.Env = append(os.Environ(), goEnv()...)
	out, err := cmd.CombinedOutput()
	if err != nil {
		n.buildErr = fmt.Errorf("building native replay binary: %v\n%s", err, out)
	}
	return n.buildErr
}

func packageName(dir string) (string, error) {
	ents, err := os.ReadDir(dir)
	if err != nil {
		return "", err
	}
	for _, e := range ents {
		if strings.HasSuffix(e.Name(), ".go") && !strings.HasSuffix(e.Name(), "_test.go") {
			b, err := os.ReadFile(filepath.Join(dir, e.Name()))
			if err != nil {
				continue
			}
			for _, line := range strings.Split(string(b), "\n") {
				line = strings.TrimSpace(line)
				if strings.HasPrefix(line, "package ") {
					return strings.Fields(line)[1], nil
				}
			}
		}
	}
	return "", fmt.Errorf("no package clause found in %s", dir)
}

func (n *native) cleanup() {
	if n.dir != "" {
		os.RemoveAll(n.dir)
	}
}

func (n *native) writeReplay(path, harness string, inputs map[string]string) {
	b, _ := json.MarshalIndent(map[string]interface{}{"property": n.id, "harness": harness, "tier": n.tier, "inputs": inputs}, "", " ")
	os.WriteFile(path, b, 0o644)
}

func (n *native) run(replay string) (string, error) {
	if err := n.build(); err != nil {
		return "", err
	}
	to := "60s"
	if n.spec.NativeTimeoutS > 0 {
		to = fmt.Sprintf("%ds", n.spec.NativeTimeoutS)
	}
	cmd := exec.Command(n.bin, "-test.run", "^TestVerifReplay$", "-test.v", "-test.timeout", to)
	cmd.Dir = filepath.Join(repoModule, n.spec.Pkg)
	cmd.Env = append(os.Environ(), "VERIF_REPLAY="+replay)
	out, _ := cmd.CombinedOutput()
	if !strings.Contains(string(out), "VERIF-DONE") && !strings.Contains(string(out), "panic: test timed out") && !strings.Contains(string(out), "fatal error:") {
		return string(out), fmt.Errorf("native harness did not finish:\n%s", tail(string(out), 30))
	}
	return string(out), nil
}

// confirms replays a counterexample natively (several times when the harness
// has native randomness) and reports whether the assertion fails natively too.
func (n *native) confirms(replay, assertID string) (bool, error) {
	tries := 1 + n.retries
	for t := 0; t < tries; t++ {
		out, err := n.run(replay)
		if err != nil {
			return false, err
		}
		if nativeFailed(out, assertID) {
			return true, nil
		}
	}
	return false, nil
}

func tail(s string, n int) string {
	lines := strings.Split(s, "\n")
	if len(lines) > n {
		lines = lines[len(lines)-n:]
	}
	return strings.Join(lines, "\n")
}

func nativeFailed(out, assertID string) bool {
	if assertID == "panic" {
		return strings.Contains(out, "VERIF-PANIC") || strings.Contains(out, "fatal error:")
	}
	if assertID == "deadlock" {
		return strings.Contains(out, "test timed out") || strings.Contains(out, "all goroutines are asleep")
	}
	for _, line := range strings.Split(out, "\n") {
		if strings.HasPrefix(line, "VERIF-ASSERT-FAIL "+assertID) {
			f := strings.Fields(line)
			if len(f) >= 2 && f[1] == assertID {
				return true
			}
		}
	}
	return false
}

// compareNative checks that the native run saw the observed values the
// engine computed and that no assertion failed (sampled paths are passing paths).
func compareNative(out string, observes map[string]string, failsAll string) (bool, string) {
	got := map[string]string{}
	stoppedAtFailsAll := false
	for _, line := range strings.Split(out, "\n") {
		if stoppedAtFailsAll {
			break
		}
		switch {
		case strings.HasPrefix(line, "VERIF-OBSERVE "):
			kv := strings.SplitN(strings.TrimPrefix(line, "VERIF-OBSERVE "), "=", 2)
			if len(kv) == 2 {
				got[kv[0]] = kv[1]
			}
		case strings.HasPrefix(line, "VERIF-ASSERT-FAIL "):
			if f := strings.Fields(line); failsAll != "" && len(f) >= 2 && f[1] == failsAll {
				// the engine, too, found this assertion failing on every input of the path and
				// stopped there: whatever the native run does afterwards is not compared
				stoppedAtFailsAll = true
			}
			if stoppedAtFailsAll {
				continue
			}
			return false, "native run fails " + line
		case strings.HasPrefix(line, "VERIF-PANIC"):
			return false, "native run panics: " + line
		case strings.HasPrefix(line, "VERIF-MISSING"):
			return false, "native run asked for an input the engine never created: " + line
		case strings.HasPrefix(line, "VERIF-ASSUME-FALSE"):
			return false, "native run violates an assumption"
		}
	}
	if failsAll != "" && !strings.Contains(out, "VERIF-ASSERT-FAIL "+failsAll) {
		return false, "engine found assertion " + failsAll + " failing on every input of the path, the native run does not fail it"
	}
	for k, v := range observes {
		if g, ok := got[k]; !ok {
			return false, fmt.Sprintf("native run did not observe %s", k)
		} else if g != v {
			return false, fmt.Sprintf("observe %s: engine %s, native %s", k, v, g)
		}
	}
	for k := range got {
		if _, ok := observes[k]; !ok && !stoppedAtFailsAll {
			return false, fmt.Sprintf("native run observed %s which the engine did not", k)
		}
	}
	return true, ""
}
