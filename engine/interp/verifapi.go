package interp

// Engine-side meaning of the harness support package zz_verif/verif.

import (
	"fmt"
	"strconv"
	"go/types"
	"sort"
	"strings"
)

var verifAPI map[string]externalFn

func init() {
	verifAPI = map[string]externalFn{
		"Symbolic": func(fr *frame, args []value) value { return true },
		"Tier":     func(fr *frame, args []value) value { return fr.i.cfg.Tier },
		"Harness":  func(fr *frame, args []value) value { return "" },
		"Bool": func(fr *frame, args []value) value {
			return sym{fr.i.newInput(argStr(args[0]), "bool", boolSort), types.Bool}
		},
		"Int8":    mkIntInput("int8", types.Int8),
		"Int16":   mkIntInput("int16", types.Int16),
		"Int32":   mkIntInput("int32", types.Int32),
		"Int64":   mkIntInput("int64", types.Int64),
		"IntAny":  mkIntInput("int", types.Int),
		"Uint8":   mkIntInput("uint8", types.Uint8),
		"Uint16":  mkIntInput("uint16", types.Uint16),
		"Uint32":  mkIntInput("uint32", types.Uint32),
		"Uint64":  mkIntInput("uint64", types.Uint64),
		"UintAny": mkIntInput("uint", types.Uint),
		"Float32": func(fr *frame, args []value) value {
			return sym{fr.i.newInput(argStr(args[0]), "float32", fpSort(32)), types.Float32}
		},
		"Float64": func(fr *frame, args []value) value {
			return sym{fr.i.newInput(argStr(args[0]), "float64", fpSort(64)), types.Float64}
		},
		"Int":        verifInt,
		"Len":        verifLen,
		"Choice":     verifChoice,
		"Bytes":      verifBytes,
		"String":     verifString,
		"Assume":     verifAssume,
		"Assert":     verifAssert,
		"AssertKnown": verifAssertKnown,
		"Observe":    verifObserve,
		"Reach":      verifReach,
		"Stop":       func(fr *frame, args []value) value { panic(engineAbort{kind: abortStop, msg: "verif.Stop"}) },
		"And":        verifAnd,
		"Or":         verifOr,
		"Not":        verifNot,
		"Implies":    verifImplies,
		"IteInt":     verifIte,
		"IteInt64":   verifIte,
		"IteUint64":  verifIte,
		"Concrete":   verifConcrete,
		"Itoa": func(fr *frame, args []value) value {
			if s, ok := args[0].(sym); ok {
				return symDecimal{s}
			}
			return strconv.FormatInt(asInt64(args[0]), 10)
		},
		"ConcreteString": func(fr *frame, args []value) value { return fr.i.concretizeStr(args[0], "verif.ConcreteString") },
		"ExploreSchedules": func(fr *frame, args []value) value {
			fr.i.sched.explore = true
			fr.i.sched.maxPreempt = int(asInt64(args[0]))
			return nil
		},
		"ExploreMemory": func(fr *frame, args []value) value {
			fr.i.sched.racy = args[0].(bool)
			return nil
		},
		"RunSpawned": verifRunSpawned,
		"NoSpawn": func(fr *frame, args []value) value {
			fr.i.sched.noSpawn = args[0].(bool)
			return nil
		},
		"Now":     func(fr *frame, args []value) value { return fr.i.clock.now },
		"Advance": func(fr *frame, args []value) value {
			// same meaning as time.Sleep: virtual time passes, timers fire in order and the
			// other goroutines run while the caller is asleep
			i := fr.i
			d := asInt64(i.concretizeInt(args[0], "clock advance"))
			if d <= 0 {
				return nil
			}
			done := false
			i.clock.newTimer(d, nil, func() { done = true }, 0)
			i.block("verif.Advance", func() bool { return done })
			return nil
		},
		"KnownCrashIf": func(fr *frame, args []value) value {
			fr.i.ps.knownCrashID = argStr(args[0])
			fr.i.ps.knownCrashCond, _ = args[1].(*value)
			return nil
		},
		"KnownDeadlockIf": func(fr *frame, args []value) value {
			fr.i.ps.knownDeadlockID = argStr(args[0])
			fr.i.ps.knownDeadlockCond, _ = args[1].(*value)
			return nil
		},
		"Yield": func(fr *frame, args []value) value { fr.i.yield(argStr(args[0])); return nil },
		"Unsupported": func(fr *frame, args []value) value {
			fr.i.unsupported("harness: %s", argStr(args[0]))
			return nil
		},
	}
}

func argStr(v value) string {
	if s, ok := v.(string); ok {
		return s
	}
	panic(engineAbort{kind: abortUnsupported, msg: "verif: name argument must be a concrete string"})
}

func mkIntInput(kind string, k types.BasicKind) externalFn {
	return func(fr *frame, args []value) value {
		return sym{fr.i.newInput(argStr(args[0]), kind, bvSort(kindWidth(k))), k}
	}
}

// Int(name, lo, hi): symbolic int constrained to [lo, hi].
func verifInt(fr *frame, args []value) value {
	i := fr.i
	lo, hi := asInt64(args[1]), asInt64(args[2])
	if lo == hi {
		return int(lo)
	}
	t := i.newInput(argStr(args[0]), "int", bvSort(64))
	tt := i.ps.tt
	i.addPC(tt.and(tt.mk("bvsge", boolSort, t, tt.mkBV(uint64(lo), 64)), tt.mk("bvsle", boolSort, t, tt.mkBV(uint64(hi), 64))))
	if lo > hi {
		i.abort(abortInfeasible, "empty range")
	}
	return sym{t, types.Int}
}

// Len(name, lo, hi): like Int but concretised at once (one path per value).
func verifLen(fr *frame, args []value) value {
	i := fr.i
	_, slo := args[1].(sym)
	_, shi := args[2].(sym)
	if !slo && !shi {
		// concrete range: a free n-way choice, no solver involved
		lo, hi := asInt64(args[1]), asInt64(args[2])
		if lo > hi {
			i.abort(abortInfeasible, "empty range")
		}
		if hi-lo > 4096 {
			i.abort(abortBound, "verif.Len range larger than 4096")
		}
		k := lo
		if hi > lo {
			k = lo + int64(i.chooseN(int(hi-lo+1), "verif.Len "+argStr(args[0])))
			t := i.newInput(argStr(args[0]), "int", bvSort(64))
			tt := i.ps.tt
			i.addPC(tt.eq(t, tt.mkBV(uint64(k), 64)))
		}
		return int(k)
	}
	v := verifInt(fr, args)
	return i.concretizeInt(v, "verif.Len "+argStr(args[0]))
}

func verifChoice(fr *frame, args []value) value {
	n := asInt64(args[1])
	return verifLen(fr, []value{args[0], int(0), int(n - 1)})
}

func verifBytes(fr *frame, args []value) value {
	i := fr.i
	n := int(asInt64(fr.i.concretizeInt(args[1], "verif.Bytes length")))
	base := i.ps.freshName(argStr(args[0]))
	r := make([]value, n)
	for k := 0; k < n; k++ {
		full := fmt.Sprintf("%s[%d]", base, k)
		t := i.ps.tt.mkVar(smtIdent(full), bvSort(8))
		i.ps.vars = append(i.ps.vars, inputVar{Name: full, Kind: "uint8", t: t})
		i.solver.define(t)
		r[k] = sym{t, types.Uint8}
	}
	return r
}

func verifString(fr *frame, args []value) value {
	b := verifBytes(fr, args).([]value)
	return mkStr(b)
}

func verifAssume(fr *frame, args []value) value {
	i := fr.i
	switch c := args[0].(type) {
	case bool:
		if !c {
			i.abort(abortInfeasible, "assumption false")
		}
	case sym:
		i.addPC(c.t)
		i.mustSat("assumption")
	}
	return nil
}

func (i *interpreter) recordViolation(id, known, msg string, haveModel bool) {
	v := violation{Harness: "", AssertID: id, Known: known, Msg: msg, Decisions: len(i.ps.decisions)}
	if !haveModel {
		if i.solver.checkSat() != "sat" {
			v.Msg += " (no model: path condition not sat)"
		} else {
			haveModel = true
		}
	}
	if haveModel {
		func() {
			defer func() { recover() }()
			v.Inputs = i.model()
		}()
	}
	i.ps.viols = append(i.ps.viols, v)
}

// checkAssert decides pc ∧ ¬c; on sat it records a violation (with model).
// region, if non-nil, splits the failing inputs into a known-finding region
// and the rest.
func (i *interpreter) checkAssert(id string, c value, knownID string, region value) {
	ps := i.ps
	tt := ps.tt
	ps.reached[id] = true
	var ct *term
	switch c := c.(type) {
	case bool:
		ct = tt.mkBool(c)
	case sym:
		ct = c.t
	default:
		i.unsupported("verif.Assert on %T", c)
	}
	var rt *term
	if region != nil {
		switch r := region.(type) {
		case bool:
			rt = tt.mkBool(r)
		case sym:
			rt = r.t
		}
	}
	outcome := "pass"
	check := func(extra *term, known string) {
		neg := tt.not(ct)
		if extra != nil {
			neg = tt.and(neg, extra)
		}
		if neg.isConst && neg.cv == 0 {
			return
		}
		s := i.solver
		s.define(neg)
		s.push()
		s.send("(assert " + neg.ref() + ")")
		r := s.checkSat()
		switch r {
		case "sat":
			if known != "" {
				outcome = "known"
			} else {
				outcome = "fail"
			}
			i.recordViolation(id, known, "assertion "+id+" violated", true)
		case "unsat":
		default:
			s.pop()
			i.abort(abortSolver, "solver inconclusive on assertion %s", id)
		}
		s.pop()
	}
	if rt == nil {
		check(nil, "")
	} else {
		check(tt.not(rt), "")
		check(rt, knownID)
	}
	ps.asserts = append(ps.asserts, assertRec{ID: id, Outcome: outcome})
	// continue under the assumption that the assertion holds
	if ct.isConst {
		if ct.cv == 0 {
			ps.failsAll = id
			i.abort(abortStop, "assertion %s fails on every input of this path", id)
		}
		return
	}
	s := i.solver
	s.define(ct)
	s.push()
	s.send("(assert " + ct.ref() + ")")
	r := s.checkSat()
	s.pop()
	if r != "sat" {
		ps.failsAll = id
		i.abort(abortStop, "assertion %s fails on every input of this path", id)
	}
	i.addPC(ct)
}

func verifAssert(fr *frame, args []value) value {
	fr.i.checkAssert(argStr(args[0]), args[1], "", nil)
	return nil
}

// AssertKnown(id, cond, findingID, inRegion)
func verifAssertKnown(fr *frame, args []value) value {
	fr.i.checkAssert(argStr(args[0]), args[1], argStr(args[2]), args[3])
	return nil
}

func verifReach(fr *frame, args []value) value {
	fr.i.ps.reached[argStr(args[0])] = true
	return nil
}

func verifObserve(fr *frame, args []value) value {
	it := args[1].(iface)
	fr.i.ps.observes = append(fr.i.ps.observes, observeRec{name: fr.i.ps.freshName(argStr(args[0])), v: it})
	return nil
}

func (i *interpreter) boolTerm(v value) *term {
	switch v := v.(type) {
	case bool:
		return i.ps.tt.mkBool(v)
	case sym:
		return v.t
	}
	i.unsupported("boolean expected, got %T", v)
	return nil
}

func verifAnd(fr *frame, args []value) value {
	return mkSym(fr.i.ps.tt.and(fr.i.boolTerm(args[0]), fr.i.boolTerm(args[1])), types.Bool)
}
func verifOr(fr *frame, args []value) value {
	return mkSym(fr.i.ps.tt.or(fr.i.boolTerm(args[0]), fr.i.boolTerm(args[1])), types.Bool)
}
func verifNot(fr *frame, args []value) value {
	return mkSym(fr.i.ps.tt.not(fr.i.boolTerm(args[0])), types.Bool)
}
func verifImplies(fr *frame, args []value) value {
	tt := fr.i.ps.tt
	return mkSym(tt.or(tt.not(fr.i.boolTerm(args[0])), fr.i.boolTerm(args[1])), types.Bool)
}
func verifIte(fr *frame, args []value) value {
	i := fr.i
	c := i.boolTerm(args[0])
	if c.isConst {
		if c.cv != 0 {
			return args[1]
		}
		return args[2]
	}
	k := kindOfValue(args[1])
	return mkSym(i.ps.tt.ite(c, i.termOf(args[1]), i.termOf(args[2])), k)
}

func verifConcrete(fr *frame, args []value) value {
	return fr.i.concretizeInt(args[0], "verif.Concrete")
}

func verifRunSpawned(fr *frame, args []value) value {
	i := fr.i
	k := int(asInt64(args[0]))
	if k < 0 || k >= len(i.spawned) {
		return false
	}
	sp := i.spawned[k]
	call(i, nil, sp.instr.Pos(), sp.fn, sp.args)
	return true
}

// ---- observed values ----

func (i *interpreter) renderObserved(v value) string {
	switch v := v.(type) {
	case iface:
		if v.t == nil {
			return "nil"
		}
		if _, isBasic := v.t.Underlying().(*types.Basic); !isBasic {
			if _, isSlice := v.t.Underlying().(*types.Slice); !isSlice {
				if msg, ok := i.tryErrorString(v); ok {
					return "err:" + msg
				}
			}
		}
		return i.renderObserved(v.v)
	case bool:
		return fmt.Sprint(v)
	case sym:
		bits, err := i.solver.getValue(v.t)
		if err != nil {
			i.abort(abortSolver, "%v", err)
		}
		return i.renderObserved(fromBits(v.k, bits))
	case float32:
		return fmt.Sprintf("f32:0x%08x", f32bits(v))
	case float64:
		return fmt.Sprintf("f64:0x%016x", f64bits(v))
	case string:
		return fmt.Sprintf("s:%x", v)
	case sstr:
		bs := make([]byte, len(v.b))
		for k, e := range v.b {
			switch e := e.(type) {
			case uint8:
				bs[k] = e
			case sym:
				bits, err := i.solver.getValue(e.t)
				if err != nil {
					i.abort(abortSolver, "%v", err)
				}
				bs[k] = byte(bits)
			}
		}
		return fmt.Sprintf("s:%x", bs)
	case []value:
		parts := make([]string, len(v))
		for k, e := range v {
			parts[k] = i.renderObserved(e)
		}
		return "[" + strings.Join(parts, ",") + "]"
	case int, int8, int16, int32, int64, uint, uint8, uint16, uint32, uint64, uintptr:
		return fmt.Sprint(v)
	}
	return fmt.Sprintf("<%T>", v)
}

// defineObserved makes every symbolic observed term known to the solver
// (to be called before the check-sat whose model is read).
func (i *interpreter) defineObserved() {
	var walk func(v value)
	walk = func(v value) {
		switch v := v.(type) {
		case iface:
			walk(v.v)
		case sym:
			i.solver.define(v.t)
		case sstr:
			for _, e := range v.b {
				walk(e)
			}
		case []value:
			for _, e := range v {
				walk(e)
			}
		}
	}
	for _, o := range i.ps.observes {
		walk(o.v)
	}
}

func (i *interpreter) observedValues() map[string]string {
	m := map[string]string{}
	for _, o := range i.ps.observes {
		m[o.name] = i.renderObserved(o.v)
	}
	return m
}

func sortedStringKeys(m map[string]string) []string {
	var ks []string
	for k := range m {
		ks = append(ks, k)
	}
	sort.Strings(ks)
	return ks
}
