package interp

// Channels, goroutines and select on a cooperative scheduler.
//
// Interpreted goroutines are host goroutines that pass a baton: exactly one
// runs at any time. In the default (sequential) mode the running goroutine
// keeps the baton until it blocks or finishes and the next runnable goroutine
// with the lowest id takes over — a deterministic schedule. In exploration
// mode (verif.ExploreSchedules) every visible operation is a scheduling point
// whose choice is a recorded decision, explored by the same DFS as branches,
// under a preemption bound.

import (
	"os"
	"fmt"
	"go/token"
	"go/types"

	"golang.org/x/tools/go/ssa"
)

type vchan struct {
	id     int
	buf    []value
	cap    int
	closed bool
	// rendezvous for unbuffered channels: a parked sender offers its value
	sendq []*parkedSend
	recvq int // number of goroutines parked in a receive on this channel
	// receivers parked on this channel (plain receives and selects with a receive case)
	waiters []*recvWaiter
	// values handed over by a select-send to a parked receiver: that receiver is committed to take them
	mustRecv int
	timer    *vtimer
}

// recvWaiter is a goroutine parked in a receive (or in a select with a receive
// case) on a channel. stillBlocked tells whether nothing else has made it
// runnable in the meantime: only then can a select-send on an unbuffered
// channel rendezvous with it (a goroutine woken by another case has left the
// wait queues in the real runtime).
type recvWaiter struct {
	stillBlocked func() bool
	probing      bool
}

func (c *vchan) addWaiter(w *recvWaiter) { c.waiters = append(c.waiters, w) }
func (c *vchan) removeWaiter(w *recvWaiter) {
	for k, e := range c.waiters {
		if e == w {
			c.waiters = append(c.waiters[:k], c.waiters[k+1:]...)
			return
		}
	}
}

type parkedSend struct {
	v     value
	taken bool
	g     *goroutine
}

func (c *vchan) length() int {
	if c == nil {
		return 0
	}
	return len(c.buf)
}
func (c *vchan) capacity() int {
	if c == nil {
		return 0
	}
	return c.cap
}

type spawnedGo struct {
	instr *ssa.Go
	fn    value
	args  []value
}

type goroutine struct {
	id      int
	resume  chan struct{}
	done    bool
	started bool
	canRun  func() bool // nil: runnable
	what    string
	fn      value
	args    []value
	instr   *ssa.Go
}

type scheduler struct {
	i           *interpreter
	gs          []*goroutine
	explore     bool
	maxPreempt  int
	preemptions int
	abort       interface{} // panic value raised in a non-main goroutine
	killed      bool
	nextChanID  int
	noSpawn     bool // `go` statements are recorded but not run
	steps       int
	timerFires    int
	racy          bool // every heap load/store is a scheduling point (verif.ExploreMemory)
	maxTimerFires int
}

func newScheduler(i *interpreter) *scheduler {
	s := &scheduler{i: i, maxPreempt: 2, maxTimerFires: 2}
	main := &goroutine{id: 0, resume: make(chan struct{}, 1), started: true}
	s.gs = []*goroutine{main}
	i.curG = main
	return s
}

func (i *interpreter) makeChan(instr *ssa.MakeChan, size value) value {
	n := int(asInt64(size))
	if n < 0 {
		panic(runtimeErrorText("makechan: size out of range"))
	}
	i.sched.nextChanID++
	return &vchan{id: i.sched.nextChanID, cap: n}
}

func (i *interpreter) newChan(n int) *vchan {
	i.sched.nextChanID++
	return &vchan{id: i.sched.nextChanID, cap: n}
}

// ---- goroutines ----

func (i *interpreter) spawn(instr *ssa.Go, fn value, args []value) {
	s := i.sched
	if s.noSpawn {
		i.spawned = append(i.spawned, &spawnedGo{instr, fn, args})
		return
	}
	if len(s.gs) >= 64 {
		i.abort(abortBound, "more than 64 goroutines on one path")
	}
	g := &goroutine{id: len(s.gs), resume: make(chan struct{}, 1), fn: fn, args: args, instr: instr}
	s.gs = append(s.gs, g)
	go s.runGoroutine(g)
	i.yield("go")
}

func (s *scheduler) runGoroutine(g *goroutine) {
	<-g.resume
	if s.killed {
		return
	}
	g.started = true
	defer func() {
		g.done = true
		if r := recover(); r != nil {
			if ea, ok := r.(engineAbort); ok && ea.kind == abortKilled {
				return
			}
			if s.abort == nil {
				s.abort = r
			}
			// hand the baton back to main so that the path driver sees the abort
			s.kill()
			return
		}
		// finished normally: pass the baton on
		s.i.curG = nil
		s.pickNext(g, true)
	}()
	s.i.curG = g
	pos := token.NoPos
	if g.instr != nil {
		pos = g.instr.Pos()
	}
	call(s.i, nil, pos, g.fn, g.args)
}

// kill wakes every parked goroutine so that it unwinds.
func (s *scheduler) kill() {
	s.killed = true
	for _, g := range s.gs {
		if !g.done {
			select {
			case g.resume <- struct{}{}:
			default:
			}
		}
	}
}

func (s *scheduler) enabled() []*goroutine {
	var en []*goroutine
	for _, g := range s.gs {
		if g.done {
			continue
		}
		if g.canRun == nil || g.canRun() {
			en = append(en, g)
		}
	}
	return en
}

// park suspends the calling goroutine g until it is handed the baton again.
func (s *scheduler) park(g *goroutine) {
	<-g.resume
	if s.killed {
		if g.id == 0 {
			if s.abort != nil {
				a := s.abort
				s.abort = nil
				panic(a)
			}
			return
		}
		panic(engineAbort{kind: abortKilled})
	}
	s.i.curG = g
}

func (s *scheduler) handTo(next *goroutine) {
	next.resume <- struct{}{}
}

// pickNext chooses who runs after `self` reached a point where it cannot or
// need not continue. finished: self is done and must not be resumed.
func (s *scheduler) pickNext(self *goroutine, finished bool) {
	for {
		en := s.enabled()
		if len(en) == 0 {
			// nothing runnable: fire the earliest timer, else deadlock
			if s.i.clock != nil && s.i.clock.fireNext() {
				continue
			}
			desc := ""
			for _, g := range s.gs {
				if !g.done {
					desc += fmt.Sprintf(" g%d:%s", g.id, g.what)
				}
			}
			if s.abort == nil {
				s.abort = pathDeadlock{desc}
			}
			if self.id == 0 && !finished {
				a := s.abort
				s.abort = nil
				s.kill()
				panic(a)
			}
			s.kill()
			return
		}
		var next *goroutine
		if s.explore && len(en) > 1 {
			next = en[s.i.chooseN(len(en), "schedule")]
		} else {
			next = en[0]
		}
		if next == self {
			return
		}
		s.handTo(next)
		if !finished {
			s.park(self)
		}
		return
	}
}

func (s *scheduler) allDoneButMain() bool {
	for _, g := range s.gs {
		if !g.done && g.id != 0 {
			return false
		}
	}
	return true
}

type pathDeadlock struct{ desc string }

// yield is a scheduling point at which the current goroutine could continue.
func (i *interpreter) yield(what string) {
	s := i.sched
	if s == nil || !s.explore || i.curG == nil || i.inInit {
		return
	}
	s.steps++
	self := i.curG
	en := s.enabled()
	timerOpt := 0
	if i.clock != nil && i.clock.hasPending() && s.timerFires < s.maxTimerFires {
		// time may pass between any two operations, but it is only observable through
		// channel operations (timer channels, context.Done): offer the choice there
		switch what {
		case "send", "recv", "select", "close", "go":
			timerOpt = 1
		}
	}
	if len(en) <= 1 && timerOpt == 0 {
		return
	}
	if s.preemptions >= s.maxPreempt && timerOpt == 0 {
		return
	}
	// order: self first so that choice 0 = no preemption
	ordered := []*goroutine{self}
	if s.preemptions < s.maxPreempt {
		for _, g := range en {
			if g != self {
				ordered = append(ordered, g)
			}
		}
	}
	k := i.chooseN(len(ordered)+timerOpt, "preempt@"+what)
	if k == 0 {
		return
	}
	if k == len(ordered) {
		// the earliest pending timer fires now, while this goroutine is still running
		s.timerFires++
		i.clock.fireNext()
		return
	}
	s.preemptions++
	self.what = "preempted at " + what
	self.canRun = nil
	s.handTo(ordered[k])
	s.park(self)
}

// block parks the current goroutine until canRun() holds.
func (i *interpreter) block(what string, canRun func() bool) {
	s := i.sched
	self := i.curG
	if self == nil {
		if os.Getenv("GOSYM_DEBUG_UNSUPPORTED") != "" {
			for _, g := range s.gs {
				fmt.Fprintf(os.Stderr, "  g%d done=%v started=%v what=%q\n", g.id, g.done, g.started, g.what)
			}
			fmt.Fprintf(os.Stderr, "  go stack: %s\n", shortStack())
		}
		i.unsupported("blocking operation outside a goroutine context: %s", what)
	}
	for !canRun() {
		self.canRun = canRun
		self.what = what
		s.pickNext(self, false)
		self.canRun = nil
	}
}

// ---- channel operations ----

func (i *interpreter) chanSend(c *vchan, v value) {
	i.yield("send")
	if c == nil {
		i.block("send on nil channel", func() bool { return false })
	}
	if c.closed {
		panic(targetPanicText("send on closed channel"))
	}
	if c.cap > 0 {
		i.block("send (buffer full)", func() bool { return c.closed || len(c.buf) < c.cap })
		if c.closed {
			panic(targetPanicText("send on closed channel"))
		}
		c.buf = append(c.buf, v)
		return
	}
	// unbuffered: offer the value and wait until a receiver took it
	ps := &parkedSend{v: v, g: i.curG}
	c.sendq = append(c.sendq, ps)
	i.block("send (unbuffered)", func() bool { return ps.taken || c.closed })
	if !ps.taken {
		c.removeSend(ps)
		panic(targetPanicText("send on closed channel"))
	}
}

func (c *vchan) removeSend(ps *parkedSend) {
	for k, e := range c.sendq {
		if e == ps {
			c.sendq = append(c.sendq[:k], c.sendq[k+1:]...)
			return
		}
	}
}

func (c *vchan) canRecv() bool {
	return c != nil && (len(c.buf) > 0 || len(c.sendq) > 0 || c.closed)
}

func (c *vchan) doRecv() (value, bool) {
	if len(c.buf) > 0 {
		v := c.buf[0]
		c.buf = c.buf[1:]
		if c.mustRecv > 0 {
			c.mustRecv--
		}
		return v, true
	}
	if len(c.sendq) > 0 {
		ps := c.sendq[0]
		c.sendq = c.sendq[1:]
		ps.taken = true
		return ps.v, true
	}
	return nil, false // closed
}

func (i *interpreter) chanRecv(c *vchan) (value, bool) {
	i.yield("recv")
	if c == nil {
		i.block("receive from nil channel", func() bool { return false })
	}
	c.recvq++
	w := &recvWaiter{stillBlocked: func() bool { return !c.canRecv() }}
	c.addWaiter(w)
	i.block("receive", c.canRecv)
	c.removeWaiter(w)
	c.recvq--
	return c.doRecv()
}

func (i *interpreter) chanClose(c *vchan) {
	i.yield("close")
	if c == nil {
		panic(targetPanicText("close of nil channel"))
	}
	if c.closed {
		panic(targetPanicText("close of closed channel"))
	}
	c.closed = true
}

func (c *vchan) canSend() bool {
	if c == nil {
		return false
	}
	if c.closed {
		return true // will panic
	}
	if c.cap > 0 {
		return len(c.buf) < c.cap
	}
	// unbuffered: a receiver must be parked on the channel and still be blocked
	for _, w := range c.waiters {
		if w.probing {
			continue // (two selects probing each other)
		}
		w.probing = true
		blocked := w.stillBlocked()
		w.probing = false
		if blocked {
			return true
		}
	}
	return false
}

type targetPanicText string

func (e targetPanicText) Error() string { return string(e) }
func (e targetPanicText) RuntimeError() {}

func (i *interpreter) selectOp(fr *frame, instr *ssa.Select) value {
	i.yield("select")
	type scase struct {
		c    *vchan
		send bool
		v    value
	}
	cases := make([]scase, len(instr.States))
	for k, st := range instr.States {
		c, _ := fr.get(st.Chan).(*vchan)
		cases[k] = scase{c: c, send: st.Dir == types.SendOnly}
		if cases[k].send {
			cases[k].v = fr.get(st.Send)
		}
	}
	ready := func() []int {
		var r []int
		for k, sc := range cases {
			if sc.send {
				if sc.c.canSend() {
					r = append(r, k)
				}
			} else if sc.c.canRecv() {
				r = append(r, k)
			}
		}
		return r
	}
	chosen := -1
	rs := ready()
	if len(rs) == 0 && instr.Blocking {
		w := &recvWaiter{stillBlocked: func() bool { return len(ready()) == 0 }}
		for _, sc := range cases {
			if !sc.send && sc.c != nil {
				sc.c.recvq++
				sc.c.addWaiter(w)
			}
		}
		i.block("select", func() bool { return len(ready()) > 0 })
		for _, sc := range cases {
			if !sc.send && sc.c != nil {
				sc.c.recvq--
				sc.c.removeWaiter(w)
			}
		}
		rs = ready()
	}
	if len(rs) > 0 {
		// a value handed over by a select-send commits this receiver to that case
		for _, k := range rs {
			if !cases[k].send && cases[k].c.mustRecv > 0 {
				chosen = k
				break
			}
		}
		if chosen < 0 {
			if len(rs) > 1 {
				// Go picks uniformly at random among ready cases: explore all
				chosen = rs[i.chooseN(len(rs), "select")]
			} else {
				chosen = rs[0]
			}
		}
	}
	var recv value
	recvOk := false
	if chosen >= 0 {
		sc := cases[chosen]
		if sc.send {
			if sc.c.closed {
				panic(targetPanicText("send on closed channel"))
			}
			if sc.c.cap > 0 {
				sc.c.buf = append(sc.c.buf, sc.v)
			} else {
				// a receiver is parked and still blocked: hand the value over through the buffer; it is
				// committed to receive it (rendezvous)
				sc.c.buf = append(sc.c.buf, sc.v)
				sc.c.mustRecv++
			}
		} else {
			recv, recvOk = sc.c.doRecv()
		}
	}
	r := tuple{chosen, recvOk}
	for k, st := range instr.States {
		if st.Dir == types.RecvOnly {
			var v value
			if k == chosen && recvOk {
				v = recv
			} else {
				v = zero(st.Chan.Type().Underlying().(*types.Chan).Elem())
			}
			r = append(r, v)
		}
	}
	return r
}

// chooseN is a free (solver-independent) n-way choice explored by the DFS.
func (i *interpreter) chooseN(n int, why string) int {
	if n <= 1 {
		return 0
	}
	ps := i.ps
	if ps.depth < len(ps.prefix) {
		d := ps.prefix[ps.depth]
		if !d.Choice {
			i.abort(abortNondet, "expected a free choice (%s), prefix has something else at depth %d", why, ps.depth)
		}
		ps.depth++
		ps.decisions = append(ps.decisions, d)
		if int(d.Val) >= n {
			i.abort(abortNondet, "free choice %d out of %d (%s)", d.Val, n, why)
		}
		return int(d.Val)
	}
	if len(ps.decisions) >= i.limits.MaxDecisions {
		i.abort(abortBound, "more than %d decisions on one path", i.limits.MaxDecisions)
	}
	for k := 1; k < n; k++ {
		alt := make([]decision, len(ps.decisions), len(ps.decisions)+1)
		copy(alt, ps.decisions)
		alt = append(alt, decision{Choice: true, Val: uint64(k), Checked: true})
		ps.alts = append(ps.alts, alt)
	}
	ps.decisions = append(ps.decisions, decision{Choice: true, Val: 0, Checked: true})
	ps.depth++
	return 0
}
