package interp

// One long-lived SMT solver process per interpreter instance.

import (
	"bufio"
	"fmt"
	"io"
	"os"
	"os/exec"
	"strings"
	"time"
)

type solverStats struct {
	Queries  int
	Sat      int
	Unsat    int
	Unknown  int
	SolverNs int64
	MaxNs    int64
}

type solver struct {
	kind      string // z3 | z3-new | cvc5
	cmd       *exec.Cmd
	in        io.WriteCloser
	out       *bufio.Reader
	emitted   map[int]bool    // term ids defined in this session
	declared  map[string]bool // variable names declared in this session
	stats     solverStats
	timeoutMs int
	log       io.Writer
	dead      bool
	broken    bool // pipe failed: the process must be replaced
}

func newSolver(kind string, timeoutMs int) (*solver, error) {
	var cmd *exec.Cmd
	switch kind {
	case "", "z3":
		kind = "z3"
		cmd = exec.Command("z3", "-in")
	case "z3-new":
		cmd = exec.Command("z3-new", "-in")
	case "cvc5":
		cmd = exec.Command("cvc5", "--incremental", "--produce-models", "--fp-exp", fmt.Sprintf("--tlimit-per=%d", timeoutMs))
	default:
		return nil, fmt.Errorf("unknown solver %q", kind)
	}
	in, err := cmd.StdinPipe()
	if err != nil {
		return nil, err
	}
	outp, err := cmd.StdoutPipe()
	if err != nil {
		return nil, err
	}
	cmd.Stderr = os.Stderr
	if err := cmd.Start(); err != nil {
		return nil, err
	}
	s := &solver{kind: kind, cmd: cmd, in: in, out: bufio.NewReaderSize(outp, 1<<16), timeoutMs: timeoutMs}
	if f := os.Getenv("GOSYM_SMTLOG"); f != "" {
		if w, err := os.OpenFile(f, os.O_CREATE|os.O_APPEND|os.O_WRONLY, 0o644); err == nil {
			s.log = w
		}
	}
	s.reset()
	return s, nil
}

func (s *solver) close() {
	if s.dead {
		return
	}
	s.dead = true
	s.in.Close()
	done := make(chan struct{})
	go func() { s.cmd.Wait(); close(done) }()
	select {
	case <-done:
	case <-time.After(2 * time.Second):
		s.cmd.Process.Kill()
	}
}

func (s *solver) send(txt string) {
	if s.log != nil {
		io.WriteString(s.log, txt+"\n")
	}
	if _, err := io.WriteString(s.in, txt+"\n"); err != nil {
		s.broken = true
		panic(engineAbort{kind: abortSolver, msg: "solver pipe: " + err.Error()})
	}
}

func (s *solver) reset() {
	s.emitted = make(map[int]bool)
	s.declared = make(map[string]bool)
	if s.kind == "cvc5" {
		s.send("(reset)")
		s.send("(set-logic ALL)")
		return
	}
	s.send("(reset)")
	s.send(fmt.Sprintf("(set-option :timeout %d)", s.timeoutMs))
}

// define makes sure t and everything below it is known to the solver.
func (s *solver) define(t *term) {
	if t.isConst {
		return
	}
	if t.op == "var" {
		if !s.declared[t.name] {
			s.declared[t.name] = true
			s.send(fmt.Sprintf("(declare-const %s %s)", t.name, t.sort.smt()))
		}
		return
	}
	if s.emitted[t.id] {
		return
	}
	// iterative post-order to survive deep DAGs
	type fr struct {
		t *term
		i int
	}
	stack := []fr{{t, 0}}
	for len(stack) > 0 {
		top := &stack[len(stack)-1]
		if top.i < len(top.t.args) {
			a := top.t.args[top.i]
			top.i++
			if a.isConst {
				continue
			}
			if a.op == "var" {
				if !s.declared[a.name] {
					s.declared[a.name] = true
					s.send(fmt.Sprintf("(declare-const %s %s)", a.name, a.sort.smt()))
				}
				continue
			}
			if !s.emitted[a.id] {
				stack = append(stack, fr{a, 0})
			}
			continue
		}
		if !s.emitted[top.t.id] {
			s.emitted[top.t.id] = true
			s.send(top.t.defText())
		}
		stack = stack[:len(stack)-1]
	}
}

func (s *solver) assert(t *term) {
	s.define(t)
	s.send("(assert " + t.ref() + ")")
}

func (s *solver) push() { s.send("(push 1)") }
func (s *solver) pop()  { s.send("(pop 1)") }

func (s *solver) readLine() string {
	line, err := s.out.ReadString('\n')
	if err != nil {
		s.broken = true
		panic(engineAbort{kind: abortSolver, msg: "solver died: " + err.Error()})
	}
	return strings.TrimRight(line, "\r\n")
}

// checkSat returns "sat", "unsat" or "unknown" (timeouts and errors are unknown).
func (s *solver) checkSat() string {
	t0 := time.Now()
	s.send("(check-sat)")
	res := ""
	for {
		line := s.readLine()
		if line == "" {
			continue
		}
		if strings.HasPrefix(line, "(error") {
			fmt.Fprintln(os.Stderr, "gosym: solver error:", line)
			res = "unknown"
			// an error line precedes or replaces the answer; keep reading until an answer
			// shows up only if the solver still answers: use a sync marker instead.
			s.send("(echo \"sync\")")
			for {
				l := s.readLine()
				if strings.Contains(l, "sync") {
					break
				}
			}
			break
		}
		if line == "sat" || line == "unsat" || line == "unknown" || line == "timeout" {
			res = line
			if line == "timeout" {
				res = "unknown"
			}
			break
		}
		fmt.Fprintln(os.Stderr, "gosym: unexpected solver output:", line)
	}
	d := time.Since(t0).Nanoseconds()
	s.stats.Queries++
	s.stats.SolverNs += d
	if d > s.stats.MaxNs {
		s.stats.MaxNs = d
	}
	switch res {
	case "sat":
		s.stats.Sat++
	case "unsat":
		s.stats.Unsat++
	default:
		s.stats.Unknown++
	}
	return res
}

// getValue returns the model value of t (after a sat answer).
func (s *solver) getValue(t *term) (uint64, error) {
	if t.isConst {
		return t.cv, nil
	}
	s.define(t)
	s.send("(get-value (" + t.ref() + "))")
	// answer: ((name value)) possibly spanning lines
	var sb strings.Builder
	depth := 0
	started := false
	for {
		line := s.readLine()
		if strings.HasPrefix(line, "(error") {
			return 0, fmt.Errorf("solver: %s", line)
		}
		sb.WriteString(line)
		sb.WriteByte(' ')
		for _, c := range line {
			if c == '(' {
				depth++
				started = true
			} else if c == ')' {
				depth--
			}
		}
		if started && depth == 0 {
			break
		}
	}
	txt := strings.TrimSpace(sb.String())
	// strip outer "((" name " " value "))"
	txt = strings.TrimPrefix(txt, "((")
	txt = strings.TrimSuffix(txt, "))")
	txt = strings.TrimSpace(txt)
	name := t.ref()
	if !strings.HasPrefix(txt, name) {
		return 0, fmt.Errorf("unexpected get-value answer %q", txt)
	}
	txt = strings.TrimSpace(txt[len(name):])
	return parseModelValue(txt, t.sort)
}
