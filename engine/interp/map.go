// Copyright 2013 The Go Authors. All rights reserved.
// Use of this source code is governed by a BSD-style
// license that can be found in the LICENSE file.

package interp

// Custom hashtable atop map.
// For use when the key's equivalence relation is not consistent with ==.

// The Go specification doesn't address the atomicity of map operations.
// The FAQ states that an implementation is permitted to crash on
// concurrent map access.

import (
	"go/types"
)

type hashable interface {
	hash(t types.Type) int
	eq(t types.Type, x interface{}) bool
}

type entry struct {
	key   hashable
	value value
	next  *entry
}

// A hashtable atop the built-in map.  Since each bucket contains
// exactly one hash value, there's no need to perform hash-equality
// tests when walking the linked list.  Rehashing is done by the
// underlying map.
type hashmap struct {
	keyType types.Type
	table   map[int]*entry
	length  int // number of entries in map
}

// makeMap returns an empty initialized map of key type kt,
// preallocating space for reserve elements.
func makeMap(kt types.Type, reserve int64) value {
	if usesBuiltinMap(kt) {
		return make(map[value]value, reserve)
	}
	return &hashmap{keyType: kt, table: make(map[int]*entry, reserve)}
}

// delete removes the association for key k, if any.
func (m *hashmap) delete(k hashable) {
	if m != nil {
		hash := k.hash(m.keyType)
		head := m.table[hash]
		if head != nil {
			if k.eq(m.keyType, head.key) {
				m.table[hash] = head.next
				m.length--
				return
			}
			prev := head
			for e := head.next; e != nil; e = e.next {
				if k.eq(m.keyType, e.key) {
					prev.next = e.next
					m.length--
					return
				}
				prev = e
			}
		}
	}
}

// lookup returns the value associated with key k, if present, or
// value(nil) otherwise.
func (m *hashmap) lookup(k hashable) value {
	if m != nil {
		hash := k.hash(m.keyType)
		for e := m.table[hash]; e != nil; e = e.next {
			if k.eq(m.keyType, e.key) {
				return e.value
			}
		}
	}
	return nil
}

// insert updates the map to associate key k with value v.  If there
// was already an association for an eq() (though not necessarily ==)
// k, the previous key remains in the map and its associated value is
// updated.
func (m *hashmap) insert(k hashable, v value) {
	hash := k.hash(m.keyType)
	head := m.table[hash]
	for e := head; e != nil; e = e.next {
		if k.eq(m.keyType, e.key) {
			e.value = v
			return
		}
	}
	m.table[hash] = &entry{
		key:   k,
		value: v,
		next:  head,
	}
	m.length++
}

// len returns the number of key/value associations in the map.
func (m *hashmap) len() int {
	if m != nil {
		return m.length
	}
	return 0
}

// entries returns a rangeable map of entries.
func (m *hashmap) entries() map[int]*entry {
	if m != nil {
		return m.table
	}
	return nil
}
