package interp

// Driver: load the repository with overlays, run harness functions
// symbolically over all paths, collect results.

import (
	"fmt"
	"go/token"
	"go/types"
	"os"
	"runtime"
	"runtime/debug"
	"sort"
	"strings"
	"sync"
	"time"

	"golang.org/x/tools/go/packages"
	"golang.org/x/tools/go/ssa"
	"golang.org/x/tools/go/ssa/ssautil"
)

type Config struct {
	Dir       string            // module directory to load from
	Patterns  []string          // package patterns
	Overlay   map[string][]byte // path -> content
	Env       []string
	BuildTags string
	Solver    string
	TimeoutMs int
	Limits    limits
	Workers   int
	Trace     bool
	Seed      int64
	SampleN   int  // completed paths per harness for which a model is extracted
	MaxPaths  int  // safety valve per harness
	Verbose   bool
	RepoPrefix string // import path prefix of the repository under test
	Tier       int    // 0 quick, 1 thorough
	MaxWallSec int    // exploration budget; exceeding it is reported as inconclusive
}

type Program struct {
	cfg     *Config
	prog    *ssa.Program
	pkgs    []*ssa.Package
	byPath  map[string]*ssa.Package
	sizes   types.Sizes
	LoadSec float64
	overrides map[string]*ssa.Function
}

func Load(cfg *Config) (*Program, error) {
	t0 := time.Now()
	pc := &packages.Config{
		Mode:    packages.LoadAllSyntax,
		Dir:     cfg.Dir,
		Overlay: cfg.Overlay,
		Env:     append(os.Environ(), cfg.Env...),
	}
	if cfg.BuildTags != "" {
		pc.BuildFlags = []string{"-tags=" + cfg.BuildTags}
	}
	initial, err := packages.Load(pc, cfg.Patterns...)
	if err != nil {
		return nil, err
	}
	nerr := 0
	packages.Visit(initial, nil, func(p *packages.Package) {
		for _, e := range p.Errors {
			if nerr < 20 {
				fmt.Fprintln(os.Stderr, "load error:", e)
			}
			nerr++
		}
	})
	if nerr > 0 {
		return nil, fmt.Errorf("%d package load errors", nerr)
	}
	prog, pkgs := ssautil.AllPackages(initial, ssa.InstantiateGenerics)
	prog.Build()
	p := &Program{cfg: cfg, prog: prog, byPath: map[string]*ssa.Package{}, sizes: types.SizesFor("gc", "amd64"), overrides: map[string]*ssa.Function{}}
	for _, pk := range pkgs {
		if pk != nil {
			p.pkgs = append(p.pkgs, pk)
		}
	}
	for _, pk := range prog.AllPackages() {
		p.byPath[pk.Pkg.Path()] = pk
	}
	if cfg.Limits.MaxSteps == 0 {
		cfg.Limits = defaultLimits()
	}
	if cfg.TimeoutMs == 0 {
		cfg.TimeoutMs = 60000
	}
	if cfg.Workers == 0 {
		cfg.Workers = runtime.NumCPU()
	}
	if cfg.MaxPaths == 0 {
		cfg.MaxPaths = 200000
	}
	p.LoadSec = time.Since(t0).Seconds()
	return p, nil
}

// SetSolver switches the solver back end for subsequent explorations.
func (p *Program) SetSolver(kind string) { p.cfg.Solver = kind }

// RegisterOverride redirects calls of the function whose String() is target
// to the harness function (pkgPath, name).
func (p *Program) RegisterOverride(target, pkgPath, name string) error {
	pk := p.byPath[pkgPath]
	if pk == nil {
		return fmt.Errorf("override %s: no package %s", target, pkgPath)
	}
	fn := pk.Func(name)
	if fn == nil {
		return fmt.Errorf("override %s: no function %s.%s", target, pkgPath, name)
	}
	p.overrides[target] = fn
	return nil
}

// Harnesses returns the names of exported functions with the given prefix in pkgPath.
func (p *Program) Harnesses(pkgPath, prefix string) []string {
	pk := p.byPath[pkgPath]
	if pk == nil {
		return nil
	}
	var names []string
	for name, m := range pk.Members {
		if fn, ok := m.(*ssa.Function); ok && strings.HasPrefix(name, prefix) && fn.Signature.Params().Len() == 0 {
			names = append(names, name)
		}
	}
	sort.Strings(names)
	return names
}

type HarnessResult struct {
	Harness      string
	Paths        int
	Completed    int
	Infeasible   int
	Unsupported  map[string]int
	BoundHits    map[string]int
	SolverFail   map[string]int
	Panics       map[string]int
	Violations   []violation
	Known        map[string]int // known-finding id -> paths on which it was seen
	KnownSample  map[string]violation
	Asserts      map[string]int // assertion id -> times checked
	Reached      map[string]int
	Steps        int64
	Decisions    int64
	Samples      []pathResult
	Funcs        map[string]int64
	Solver       solverStats
	WallSec      float64
	Truncated    bool
}

type workItem struct {
	h      int
	prefix []decision
}

// Explore runs one harness over all paths.
func (p *Program) Explore(pkgPath, name string) *HarnessResult {
	return p.ExploreAll(pkgPath, []string{name})[0]
}

func newHarnessResult(name string) *HarnessResult {
	return &HarnessResult{Harness: name, Unsupported: map[string]int{}, BoundHits: map[string]int{}, SolverFail: map[string]int{},
		Panics: map[string]int{}, Known: map[string]int{}, KnownSample: map[string]violation{}, Asserts: map[string]int{}, Reached: map[string]int{}, Funcs: map[string]int64{}}
}

// ExploreAll runs the named harnesses of pkgPath over all their paths on a
// shared pool of workers (one solver process per worker).
func (p *Program) ExploreAll(pkgPath string, names []string) []*HarnessResult {
	results := make([]*HarnessResult, len(names))
	fns := make([]*ssa.Function, len(names))
	starts := make([]time.Time, len(names))
	pk := p.byPath[pkgPath]
	var work []workItem
	for k := len(names) - 1; k >= 0; k-- {
		results[k] = newHarnessResult(names[k])
		if pk == nil || pk.Func(names[k]) == nil {
			results[k].Unsupported["no such harness "+pkgPath+"."+names[k]]++
			continue
		}
		fns[k] = pk.Func(names[k])
		work = append(work, workItem{h: k})
	}
	var mu sync.Mutex
	cond := sync.NewCond(&mu)
	active := 0
	var wg sync.WaitGroup
	stopProgress := make(chan struct{})
	defer close(stopProgress)
	tStart := time.Now()
	go func() {
		tk := time.NewTicker(10 * time.Second)
		defer tk.Stop()
		for {
			select {
			case <-stopProgress:
				return
			case <-tk.C:
				mu.Lock()
				tot, comp := 0, 0
				for _, r := range results {
					tot += r.Paths
					comp += r.Completed
				}
				expired := p.cfg.MaxWallSec > 0 && time.Since(tStart).Seconds() > float64(p.cfg.MaxWallSec)
				if expired {
					for _, r := range results {
						if r.Paths > 0 && !r.Truncated {
							r.Truncated = true
						}
					}
					work = nil
				}
				if p.cfg.Verbose || expired {
					fmt.Fprintf(os.Stderr, "gosym: progress %.0fs: paths=%d completed=%d queued=%d active=%d expired=%v\n", time.Since(tStart).Seconds(), tot, comp, len(work), active, expired)
				}
				mu.Unlock()
				cond.Broadcast()
			}
		}
	}()
	for w := 0; w < p.cfg.Workers; w++ {
		wg.Add(1)
		go func(w int) {
			defer wg.Done()
			sv, err := newSolver(p.cfg.Solver, p.cfg.TimeoutMs)
			if err != nil {
				mu.Lock()
				results[0].SolverFail[err.Error()]++
				mu.Unlock()
				return
			}
			defer func() { sv.close() }()
			for {
				mu.Lock()
				for len(work) == 0 && active > 0 {
					cond.Wait()
				}
				if len(work) == 0 {
					mu.Unlock()
					cond.Broadcast()
					return
				}
				it := work[len(work)-1]
				work = work[:len(work)-1]
				res := results[it.h]
				active++
				if res.Paths == 0 {
					starts[it.h] = time.Now()
				}
				pathNo := res.Paths
				res.Paths++
				trunc := res.Paths > p.cfg.MaxPaths
				sampleEvery := 1
				if res.Completed > 64 {
					sampleEvery = 1 + res.Completed/16
				}
				want := res.Completed < p.cfg.SampleN*4 || pathNo%sampleEvery == 0
				mu.Unlock()
				if trunc {
					mu.Lock()
					res.Truncated = true
					active--
					// drop the remaining work of this harness
					kept := work[:0]
					for _, wi := range work {
						if wi.h != it.h {
							kept = append(kept, wi)
						}
					}
					work = kept
					mu.Unlock()
					cond.Broadcast()
					continue
				}
				if sv.dead || sv.broken {
					sv.close()
					nsv, err := newSolver(p.cfg.Solver, p.cfg.TimeoutMs)
					if err != nil {
						mu.Lock()
						res.SolverFail["cannot restart solver: "+err.Error()]++
						active--
						mu.Unlock()
						cond.Broadcast()
						return
					}
					nsv.stats = sv.stats
					sv = nsv
				}
				before := sv.stats
				pr, alts := p.runPath(sv, pkgPath, fns[it.h], it.prefix, want)
				mu.Lock()
				for _, a := range alts {
					work = append(work, workItem{it.h, a})
				}
				res.merge(pr, p.cfg.SampleN)
				res.Solver.Queries += sv.stats.Queries - before.Queries
				res.Solver.Sat += sv.stats.Sat - before.Sat
				res.Solver.Unsat += sv.stats.Unsat - before.Unsat
				res.Solver.Unknown += sv.stats.Unknown - before.Unknown
				res.Solver.SolverNs += sv.stats.SolverNs - before.SolverNs
				if sv.stats.MaxNs > res.Solver.MaxNs {
					res.Solver.MaxNs = sv.stats.MaxNs
				}
				res.WallSec = time.Since(starts[it.h]).Seconds()
				active--
				mu.Unlock()
				cond.Broadcast()
			}
		}(w)
	}
	wg.Wait()
	return results
}

func (r *HarnessResult) merge(pr *pathResult, sampleN int) {
	r.Steps += pr.Steps
	r.Decisions += int64(pr.Decisions)
	for f, n := range pr.funcsCalled {
		r.Funcs[f] += n
	}
	for _, a := range pr.Asserts {
		r.Asserts[a.ID]++
	}
	for _, id := range pr.Reached {
		r.Reached[id]++
	}
	for _, v := range pr.Violations {
		if v.Known != "" {
			r.Known[v.Known]++
			if _, ok := r.KnownSample[v.Known]; !ok {
				r.KnownSample[v.Known] = v
			}
			continue
		}
		if len(r.Violations) < 50 {
			r.Violations = append(r.Violations, v)
		}
	}
	switch pr.Status {
	case "ok", "stop":
		r.Completed++
		if pr.Inputs != nil {
			if len(r.Samples) < sampleN {
				r.Samples = append(r.Samples, *pr)
			} else if sampleN > 0 {
				// reservoir-ish: replace deterministically by path count
				k := r.Completed % (sampleN * 3)
				if k < sampleN {
					r.Samples[k] = *pr
				}
			}
		}
	case "infeasible":
		r.Infeasible++
	case "unsupported":
		r.Unsupported[pr.Msg]++
	case "bound_exceeded":
		r.BoundHits[pr.Msg]++
	case "solver_inconclusive", "nondeterministic_replay":
		r.SolverFail[pr.Status+": "+pr.Msg]++
	case "panic":
		r.Panics[pr.Msg]++
	}
}

// runPath executes the harness once along prefix.
func (p *Program) runPath(sv *solver, pkgPath string, fn *ssa.Function, prefix []decision, wantModel bool) (pr *pathResult, alts [][]decision) {
	i := p.newInterpreter(sv)
	ps := i.ps
	ps.prefix = prefix
	ps.wantModel = wantModel
	pr = &pathResult{Harness: fn.Name(), Status: "ok"}

	defer func() {
		if r := recover(); r != nil {
			switch r := r.(type) {
			case engineAbort:
				pr.Status = r.kind.String()
				pr.Msg = r.msg
			case pathDeadlock:
				pr.Status = "ok"
				known := ""
				if ps.knownDeadlockID != "" && ps.knownDeadlockCond != nil {
					if b, ok := (*ps.knownDeadlockCond).(bool); ok && b {
						known = ps.knownDeadlockID
					}
				}
				i.recordViolation("deadlock", known, "all goroutines blocked:"+r.desc, false)
			case targetPanic:
				pr.Status = "ok"
				i.recordViolation("panic", i.knownCrash(), "uncaught panic: "+i.describePanic(r.v), false)
			case targetPanicText:
				pr.Status = "ok"
				i.recordViolation("panic", i.knownCrash(), "uncaught runtime panic: "+string(r)+" ["+i.lastFault+"]", false)
			case runtime.Error:
				if _, isTarget := r.(runtimeErrorText); isTarget || isTargetRuntimeError(r) {
					pr.Status = "ok"
					i.recordViolation("panic", i.knownCrash(), "uncaught runtime error: "+r.Error()+" ["+i.lastFault+"]", false)
				} else {
					pr.Status = "unsupported"
					pr.Msg = "interpreter fault: " + r.Error() + " @ " + shortStack() + " [" + i.lastFault + "]"
				}
			default:
				pr.Status = "unsupported"
				pr.Msg = fmt.Sprintf("interpreter fault: %v @ %s [%s]", r, shortStack(), i.lastFault)
			}
		}
		if i.sched != nil {
			i.sched.kill()
		}
		pr.Decisions = len(ps.decisions)
		if pr.Status == "unsupported" && os.Getenv("GOSYM_DEBUG_UNSUPPORTED") != "" {
			fmt.Fprintf(os.Stderr, "gosym: unsupported path: %s\n  decisions: %+v\n  stack: %s\n", pr.Msg, ps.decisions, i.lastFault)
		}
		pr.Steps = ps.steps
		pr.Asserts = ps.asserts
		pr.Violations = ps.viols
		pr.Reached = sortedKeys(ps.reached)
		pr.FailsAll = ps.failsAll
		pr.funcsCalled = ps.funcs
		alts = ps.alts
		if pr.Status == "ok" || pr.Status == "stop" {
			if wantModel && pr.Inputs == nil {
				func() {
					defer func() {
						if r := recover(); r != nil {
							pr.Inputs = nil
						}
					}()
					i.defineObserved()
					if sv.checkSat() == "sat" {
						pr.Inputs = i.model()
						pr.Observes = i.observedValues()
						pr.PCSample = i.pcSample()
					}
				}()
			}
		}
	}()

	sv.reset()
	i.runInit(p.byPath[pkgPath])
	i.sched.noSpawn = false
	call(i, nil, token.NoPos, fn, nil)
	// harness returned: remaining goroutines are abandoned (like main returning)
	return
}

func shortStack() string {
	st := string(debug.Stack())
	lines := strings.Split(st, "\n")
	var out []string
	seenPanic := false
	for k, l := range lines {
		if strings.HasPrefix(l, "panic(") {
			seenPanic = true
			out = out[:0]
			continue
		}
		_ = k
		l = strings.TrimSpace(l)
		if strings.Contains(l, "/interp/") && strings.Contains(l, ".go:") {
			if k := strings.LastIndex(l, "/"); k >= 0 {
				l = l[k+1:]
			}
			if k := strings.Index(l, " "); k >= 0 {
				l = l[:k]
			}
			out = append(out, l)
			if len(out) >= 8 && seenPanic {
				break
			}
		}
	}
	if len(out) > 8 {
		out = out[:8]
	}
	return strings.Join(out, " < ")
}

func isTargetRuntimeError(r runtime.Error) bool {
	msg := r.Error()
	for _, s := range []string{"index out of range", "slice bounds out of range", "nil map", "integer divide by zero", "nil pointer dereference", "invalid memory address"} {
		if strings.Contains(msg, s) {
			return true
		}
	}
	return false
}

func (p *Program) newInterpreter(sv *solver) *interpreter {
	i := &interpreter{
		prog:       p.prog,
		globals:    make(map[*ssa.Global]*value),
		sizes:      p.sizes,
		goroutines: 1,
		solver:     sv,
		limits:     p.cfg.Limits,
		cfg:        p.cfg,
		poisoned:   map[*ssa.Global]string{},
		initStarted: map[*ssa.Function]bool{},
		pkgInitDone: map[*ssa.Package]bool{},
		harnessState: map[string]value{},
	}
	if p.cfg.Trace {
		i.mode |= EnableTracing
	}
	i.program = p
	tt := newTermTable()
	tt.owner = i
	i.ps = &pathState{tt: tt, nameCount: map[string]int{}, reached: map[string]bool{}, known: map[string]bool{}, funcs: map[string]int64{}, decided: map[*term]bool{}}
	runtimePkg := i.prog.ImportedPackage("runtime")
	if runtimePkg == nil {
		panic("ssa.Program doesn't include runtime package")
	}
	i.runtimeErrorString = runtimePkg.Type("errorString").Object().Type()
	initReflect(i)
	i.clock = &vclock{i: i, now: 1_700_000_000_000_000_000}
	i.sched = newScheduler(i)
	i.sched.noSpawn = true
	return i
}

// ---- tolerant package initialisation ----

func (i *interpreter) runInit(pk *ssa.Package) {
	// packages are initialised lazily, on first use (see ensureInit)
	i.ensureInit(pk)
}

// ensureInit runs the initialiser of pk if it has not started yet. Package
// initialisation is lazy: a package is initialised when one of its functions
// is first called or one of its variables first accessed on the current
// path. For the side-effect-free initialisers the encoded code depends on
// this is equivalent to Go's eager order and avoids re-running hundreds of
// initialisers on every path.
func (i *interpreter) ensureInit(pk *ssa.Package) {
	if pk == nil || i.pkgInitDone[pk] {
		return
	}
	i.pkgInitDone[pk] = true
	fn := pk.Func("init")
	if fn == nil {
		return
	}
	saved := i.inInit
	i.inInit = true
	defer func() { i.inInit = saved }()
	i.callPkgInit(fn)
}

func (i *interpreter) globalCell(g *ssa.Global) *value {
	if c, ok := i.globals[g]; ok {
		return c
	}
	cell := zero(mustDeref(g.Type()))
	i.globals[g] = &cell
	if g.Pkg != nil && !i.pkgInitDone[g.Pkg] {
		i.ensureInit(g.Pkg)
	}
	return &cell
}

// callPkgInit runs one package initialiser; a failure abandons the rest of
// that package's initialisation and leaves the not yet stored variables poisoned.
func (i *interpreter) callPkgInit(fn *ssa.Function) {
	if fn == nil {
		return
	}
	if i.initStarted[fn] {
		return
	}
	i.initStarted[fn] = true
	pkgPath := fn.Pkg.Pkg.Path()
	if skipInit(pkgPath) {
		i.poisonPackage(fn, "init of "+pkgPath+" skipped")
		return
	}
	// poison every global that init stores to; a completed init overwrites them
	i.poisonPackage(fn, "init of "+pkgPath+" incomplete")
	defer func() {
		if r := recover(); r != nil {
			if ea, ok := r.(engineAbort); ok {
				switch ea.kind {
				case abortUnsupported:
				default:
					panic(r)
				}
			}
			if i.cfg.Verbose {
				fmt.Fprintf(os.Stderr, "gosym: init of %s abandoned: %v [%s]\n", pkgPath, r, i.lastFault)
			}
			i.lastFaultVal = nil
		}
	}()
	callSSA(i, nil, token.NoPos, fn, nil, nil)
}

func (i *interpreter) poisonPackage(initFn *ssa.Function, why string) {
	for _, b := range initFn.Blocks {
		for _, ins := range b.Instrs {
			if st, ok := ins.(*ssa.Store); ok {
				if g, ok := st.Addr.(*ssa.Global); ok && g.Name() != "init$guard" {
					*i.globalCell(g) = poison{why + " (" + g.String() + ")"}
				}
			}
		}
	}
}

// skipInit lists packages whose initialisers are never interpreted: they
// only register OS/runtime state irrelevant to (and unreachable from) the
// encoded code.
func skipInit(path string) bool {
	switch path {
	case "runtime", "internal/cpu", "internal/godebug", "runtime/debug", "runtime/pprof", "runtime/trace",
		"net", "crypto/tls", "crypto/x509", "os/signal", "os/user",
		"testing", "flag", "expvar", "internal/testlog", "crypto/internal/fips140/check",
		"golang.org/x/sys/cpu", "internal/syscall/unix", "vendor/golang.org/x/sys/cpu":
		return true
	}
	return false
}

func (i *interpreter) describePanic(v value) string {
	if it, ok := v.(iface); ok {
		if s, ok := it.v.(string); ok {
			return s
		}
		if it.t != nil {
			if msg, ok := i.tryErrorString(it); ok {
				return fmt.Sprintf("%s: %s", it.t, msg)
			}
			return fmt.Sprintf("(%s) %s", it.t, toString(it.v))
		}
	}
	return toString(v)
}

// tryErrorString calls Error() or String() on an interface value, if present.
func (i *interpreter) tryErrorString(it iface) (res string, ok bool) {
	defer func() {
		if r := recover(); r != nil {
			if ea, isAbort := r.(engineAbort); isAbort && ea.kind != abortUnsupported {
				panic(r)
			}
			ok = false
		}
	}()
	for _, m := range []string{"Error", "String"} {
		mset := i.prog.MethodSets.MethodSet(it.t)
		for k := 0; k < mset.Len(); k++ {
			sel := mset.At(k)
			if sel.Obj().Name() == m {
				fn := i.prog.MethodValue(sel)
				if fn == nil {
					continue
				}
				r := call(i, nil, token.NoPos, fn, []value{it.v})
				return i.concretizeStr(r, "error text"), true
			}
		}
	}
	return "", false
}

func (i *interpreter) pcSample() string {
	var parts []string
	for k, c := range i.ps.pc {
		if k >= 12 {
			parts = append(parts, fmt.Sprintf("… (%d more)", len(i.ps.pc)-k))
			break
		}
		s := c.String()
		if len(s) > 200 {
			s = s[:200] + "…"
		}
		parts = append(parts, s)
	}
	return strings.Join(parts, " ∧ ")
}

// stackString renders the innermost interpreted frames (for diagnostics).
func (i *interpreter) stackString() string {
	var parts []string
	for k := len(i.callStack) - 1; k >= 0 && len(parts) < 6; k-- {
		parts = append(parts, i.callStack[k].String())
	}
	return strings.Join(parts, " < ")
}

// knownCrash returns the known-finding id a crash is attributed to (verif.KnownCrashIf), if its condition holds now.
func (i *interpreter) knownCrash() string {
	ps := i.ps
	if ps.knownCrashID != "" && ps.knownCrashCond != nil {
		if b, ok := (*ps.knownCrashCond).(bool); ok && b {
			return ps.knownCrashID
		}
	}
	return ""
}
