package interp

import (
	"strings"
	"sync"

	"golang.org/x/tools/go/ssa"
)

type fnInfo struct {
	name     string
	ext      externalFn
	override *ssa.Function
	pkgInit  bool
}

var fnInfoCache sync.Map // *ssa.Function -> *fnInfo

// VerifPkg is the import path of the harness support package.
const VerifPkg = "github.com/ARM-software/golang-utils/utils/zz_verif/verif"

func (p *Program) info(fn *ssa.Function) *fnInfo {
	if v, ok := fnInfoCache.Load(fn); ok {
		return v.(*fnInfo)
	}
	inf := &fnInfo{name: fn.String()}
	if fn.Parent() == nil {
		lookupName := inf.name
		// instantiated generics print as pkg.F[T]; intrinsics are keyed on the origin
		if o := fn.Origin(); o != nil {
			lookupName = o.String()
		}
		if e := externals[lookupName]; e != nil {
			inf.ext = e
		}
		if o := p.overrides[lookupName]; o != nil && o != fn {
			inf.override = o
		}
		if fn.Synthetic == "package initializer" {
			inf.pkgInit = true
		}
		if inf.ext == nil && strings.HasPrefix(lookupName, VerifPkg+".") {
			short := strings.TrimPrefix(lookupName, VerifPkg+".")
			if e := verifAPI[short]; e != nil {
				inf.ext = e
			}
		}
	}
	fnInfoCache.Store(fn, inf)
	return inf
}

// poisonResult is what a call to a function without code yields during
// tolerant initialisation.
func poisonResult(fn *ssa.Function, why string) value {
	res := fn.Signature.Results()
	switch res.Len() {
	case 0:
		return nil
	case 1:
		return poison{why}
	}
	t := make(tuple, res.Len())
	for k := range t {
		t[k] = poison{why}
	}
	return t
}
