package interp

// time: a virtual clock. time.Now reads it, Sleep/timers advance it when
// every goroutine is blocked (or, in schedule exploration, as one more
// scheduling choice).

import (
	"go/token"
)

const unixToInternal = int64((1969*365 + 1969/4 - 1969/100 + 1969/400) * 86400)

func (i *interpreter) timeValue(ns int64) value {
	sec := ns / 1e9
	nsec := ns % 1e9
	if nsec < 0 {
		nsec += 1e9
		sec--
	}
	return structure{uint64(nsec), sec + unixToInternal, (*value)(nil)}
}

func (c *vclock) newTimer(d int64, ch *vchan, fn func(), period int64) *vtimer {
	if d < 0 {
		d = 0
	}
	t := &vtimer{when: c.now + d, c: ch, fn: fn, period: period}
	c.timers = append(c.timers, t)
	return t
}

func (c *vclock) hasPending() bool {
	for _, t := range c.timers {
		if !t.fired && !t.stopped {
			return true
		}
	}
	return false
}

func init() {
	// the local time zone is UTC (the zero Location): initLocal would read TZ and /etc/localtime
	externals["time.initLocal"] = func(fr *frame, args []value) value { return nil }
	// markers and per-goroutine FIPS service indicator of the crypto packages (assembly / runtime linknames)
	externals["crypto/internal/boring/sig.StandardCrypto"] = func(fr *frame, args []value) value { return nil }
	externals["crypto/internal/boring/sig.BoringCrypto"] = func(fr *frame, args []value) value { return nil }
	externals["crypto/internal/boring/sig.FIPSOnly"] = func(fr *frame, args []value) value { return nil }
	externals["crypto/internal/fips140.getIndicator"] = func(fr *frame, args []value) value { return uint8(0) }
	externals["crypto/internal/fips140.setIndicator"] = func(fr *frame, args []value) value { return nil }
	externals["time.Now"] = func(fr *frame, args []value) value { return fr.i.timeValue(fr.i.clock.now) }
	externals["time.runtimeNano"] = func(fr *frame, args []value) value { return fr.i.clock.now }
	externals["time.now"] = func(fr *frame, args []value) value {
		ns := fr.i.clock.now
		return tuple{ns / 1e9, int32(ns % 1e9), ns}
	}
	externals["time.Sleep"] = func(fr *frame, args []value) value {
		i := fr.i
		d := asInt64(i.concretizeInt(args[0], "sleep duration"))
		if d <= 0 {
			i.yield("Sleep(0)")
			return nil
		}
		done := false
		i.clock.newTimer(d, nil, func() { done = true }, 0)
		i.block("time.Sleep", func() bool { return done })
		return nil
	}
	timerCell := func(i *interpreter, d int64, fn func(), period int64) (value, *vtimer) {
		ch := i.newChan(1)
		var vt *vtimer
		if fn != nil {
			vt = i.clock.newTimer(d, nil, fn, period)
		} else {
			vt = i.clock.newTimer(d, ch, nil, period)
		}
		cell := value(structure{ch, true})
		p := &cell
		if i.timers == nil {
			i.timers = map[*value]*vtimer{}
		}
		i.timers[p] = vt
		return p, vt
	}
	externals["time.NewTimer"] = func(fr *frame, args []value) value {
		p, _ := timerCell(fr.i, asInt64(fr.i.concretizeInt(args[0], "timer duration")), nil, 0)
		return p
	}
	externals["time.NewTicker"] = func(fr *frame, args []value) value {
		d := asInt64(fr.i.concretizeInt(args[0], "ticker period"))
		if d <= 0 {
			panic(targetPanicText("non-positive interval for NewTicker"))
		}
		p, _ := timerCell(fr.i, d, nil, d)
		return p
	}
	externals["time.AfterFunc"] = func(fr *frame, args []value) value {
		i := fr.i
		f := args[1]
		p, _ := timerCell(i, asInt64(i.concretizeInt(args[0], "timer duration")), func() {
			i.spawnFn(f, "time.AfterFunc")
		}, 0)
		return p
	}
	stop := func(fr *frame, args []value) value {
		vt := fr.i.timers[args[0].(*value)]
		if vt == nil {
			panic(targetPanicText("time: Stop called on uninitialized Timer"))
		}
		was := !vt.fired && !vt.stopped
		vt.stopped = true
		return was
	}
	externals["(*time.Timer).Stop"] = stop
	externals["(*time.Ticker).Stop"] = func(fr *frame, args []value) value { stop(fr, args); return nil }
	externals["(*time.Timer).Reset"] = func(fr *frame, args []value) value {
		i := fr.i
		vt := i.timers[args[0].(*value)]
		if vt == nil {
			panic(targetPanicText("time: Reset called on uninitialized Timer"))
		}
		was := !vt.fired && !vt.stopped
		d := asInt64(i.concretizeInt(args[1], "timer duration"))
		if d < 0 {
			d = 0
		}
		vt.fired, vt.stopped = false, false
		vt.when = i.clock.now + d
		if vt.c != nil {
			vt.c.buf = nil // Go 1.23+: Reset drains stale values
		}
		return was
	}
	externals["(*time.Ticker).Reset"] = func(fr *frame, args []value) value {
		i := fr.i
		vt := i.timers[args[0].(*value)]
		d := asInt64(i.concretizeInt(args[1], "ticker period"))
		vt.fired, vt.stopped = false, false
		vt.when = i.clock.now + d
		vt.period = d
		return nil
	}
}

// spawnFn starts a goroutine running the func value f (used by AfterFunc).
func (i *interpreter) spawnFn(f value, what string) {
	s := i.sched
	g := &goroutine{id: len(s.gs), resume: make(chan struct{}, 1), fn: f, what: what}
	s.gs = append(s.gs, g)
	go func() {
		<-g.resume
		if s.killed {
			return
		}
		g.started = true
		defer func() {
			g.done = true
			if r := recover(); r != nil {
				if ea, ok := r.(engineAbort); ok && ea.kind == abortKilled {
					return
				}
				if s.abort == nil {
					s.abort = r
				}
				s.kill()
				return
			}
			i.curG = nil
			s.pickNext(g, true)
		}()
		i.curG = g
		call(i, nil, token.NoPos, f, nil)
	}()
}
