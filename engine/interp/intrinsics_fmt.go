package interp

// fmt mini-formatter and errors.Is/As: native walks that call the
// *interpreted* Error/String/Is/As/Unwrap methods of the program's types.

import (
	"fmt"
	"go/token"
	"go/types"
	"strconv"
	"strings"

	"golang.org/x/tools/go/ssa"
)

func init() {
	externals["fmt.Sprintf"] = func(fr *frame, args []value) value {
		b, _ := fr.i.format(fr, args[0], args[1].([]value))
		return mkStr(b)
	}
	externals["fmt.Sprint"] = func(fr *frame, args []value) value { return mkStr(fr.i.sprint(fr, args[0].([]value), false)) }
	externals["fmt.Sprintln"] = func(fr *frame, args []value) value { return mkStr(fr.i.sprint(fr, args[0].([]value), true)) }
	externals["fmt.Errorf"] = extErrorf
	externals["fmt.Fprintf"] = func(fr *frame, args []value) value {
		b, _ := fr.i.format(fr, args[1], args[2].([]value))
		return fr.i.writeTo(fr, args[0], b)
	}
	externals["fmt.Fprint"] = func(fr *frame, args []value) value {
		return fr.i.writeTo(fr, args[0], fr.i.sprint(fr, args[1].([]value), false))
	}
	externals["fmt.Fprintln"] = func(fr *frame, args []value) value {
		return fr.i.writeTo(fr, args[0], fr.i.sprint(fr, args[1].([]value), true))
	}
	externals["fmt.Printf"] = func(fr *frame, args []value) value { return tuple{0, iface{}} }
	externals["fmt.Println"] = func(fr *frame, args []value) value { return tuple{0, iface{}} }
	externals["fmt.Print"] = func(fr *frame, args []value) value { return tuple{0, iface{}} }
	externals["errors.Is"] = func(fr *frame, args []value) value {
		err, target := args[0].(iface), args[1].(iface)
		if err.t == nil || target.t == nil {
			return fr.i.ifaceEq(err, target)
		}
		return fr.i.errorsIs(fr, err, target, types.Comparable(target.t), 0)
	}
	externals["errors.As"] = extErrorsAs
	externals["errors.Unwrap"] = func(fr *frame, args []value) value {
		err := args[0].(iface)
		if err.t == nil {
			return iface{}
		}
		if m := fr.i.findMethod(err.t, "Unwrap", 0, 1); m != nil && isErrorResult(m) {
			return call(fr.i, fr, token.NoPos, m, []value{err.v})
		}
		return iface{}
	}
}

func isErrorResult(m *ssa.Function) bool {
	r := m.Signature.Results()
	return r.Len() == 1 && types.Identical(r.At(0).Type(), types.Universe.Lookup("error").Type())
}

// findMethod returns the method named name of dynamic type t with the given
// numbers of parameters and results, or nil.
func (i *interpreter) findMethod(t types.Type, name string, nparams, nresults int) *ssa.Function {
	if t == nil {
		return nil
	}
	switch t {
	case rtypeType, errorType:
		return nil
	}
	mset := i.prog.MethodSets.MethodSet(t)
	for k := 0; k < mset.Len(); k++ {
		sel := mset.At(k)
		if sel.Obj().Name() != name {
			continue
		}
		sig, ok := sel.Type().(*types.Signature)
		if !ok || sig.Params().Len() != nparams || sig.Results().Len() != nresults {
			return nil
		}
		return i.prog.MethodValue(sel)
	}
	return nil
}

func (i *interpreter) ifaceEq(a, b iface) bool {
	if a.t == nil || b.t == nil {
		return a.t == nil && b.t == nil
	}
	if !types.Identical(a.t, b.t) {
		return false
	}
	return equals(a.t, a.v, b.v)
}

func (i *interpreter) errorsIs(fr *frame, err, target iface, comparable bool, depth int) bool {
	if depth > 64 {
		i.abort(abortBound, "errors.Is: chain deeper than 64")
	}
	for {
		if err.t == nil {
			return false
		}
		if comparable && i.ifaceEq(err, target) {
			return true
		}
		if m := i.findMethod(err.t, "Is", 1, 1); m != nil {
			if i.truth(call(i, fr, token.NoPos, m, []value{err.v, target})) {
				return true
			}
		}
		m := i.findMethod(err.t, "Unwrap", 0, 1)
		if m == nil {
			return false
		}
		if isErrorResult(m) {
			next := call(i, fr, token.NoPos, m, []value{err.v}).(iface)
			if next.t == nil {
				return false
			}
			err = next
			continue
		}
		// Unwrap() []error
		if _, isSlice := m.Signature.Results().At(0).Type().Underlying().(*types.Slice); isSlice {
			errs, _ := call(i, fr, token.NoPos, m, []value{err.v}).([]value)
			for _, e := range errs {
				if i.errorsIs(fr, e.(iface), target, comparable, depth+1) {
					return true
				}
			}
		}
		return false
	}
}

func extErrorsAs(fr *frame, args []value) value {
	i := fr.i
	err := args[0].(iface)
	target := args[1].(iface)
	if err.t == nil {
		return false
	}
	if target.t == nil {
		panic(targetPanicText("errors: target cannot be nil"))
	}
	pt, ok := target.t.Underlying().(*types.Pointer)
	if !ok {
		panic(targetPanicText("errors: target must be a non-nil pointer"))
	}
	cell := target.v.(*value)
	if cell == nil {
		panic(targetPanicText("errors: target must be a non-nil pointer"))
	}
	return i.errorsAs(fr, err, pt.Elem(), cell, target, 0)
}

func (i *interpreter) errorsAs(fr *frame, err iface, elem types.Type, cell *value, target iface, depth int) bool {
	if depth > 64 {
		i.abort(abortBound, "errors.As: chain deeper than 64")
	}
	for {
		if err.t == nil {
			return false
		}
		if it, isIface := elem.Underlying().(*types.Interface); isIface {
			if types.Implements(err.t, it) {
				*cell = err
				return true
			}
		} else if types.Identical(err.t, elem) {
			*cell = err.v
			return true
		}
		if m := i.findMethod(err.t, "As", 1, 1); m != nil {
			if i.truth(call(i, fr, token.NoPos, m, []value{err.v, target})) {
				return true
			}
		}
		m := i.findMethod(err.t, "Unwrap", 0, 1)
		if m == nil {
			return false
		}
		if isErrorResult(m) {
			next := call(i, fr, token.NoPos, m, []value{err.v}).(iface)
			if next.t == nil {
				return false
			}
			err = next
			continue
		}
		if _, isSlice := m.Signature.Results().At(0).Type().Underlying().(*types.Slice); isSlice {
			errs, _ := call(i, fr, token.NoPos, m, []value{err.v}).([]value)
			for _, e := range errs {
				if e.(iface).t == nil {
					continue
				}
				if i.errorsAs(fr, e.(iface), elem, cell, target, depth+1) {
					return true
				}
			}
		}
		return false
	}
}

// writeTo calls w.Write(b) on an io.Writer interface value.
func (i *interpreter) writeTo(fr *frame, w value, b []value) value {
	it := w.(iface)
	if it.t == nil {
		panic(runtimeErrorText("invalid memory address or nil pointer dereference"))
	}
	m := i.findMethod(it.t, "Write", 1, 2)
	if m == nil {
		i.unsupported("fmt.Fprint*: writer %s has no Write method", it.t)
	}
	cp := make([]value, len(b))
	copy(cp, b)
	return call(i, fr, token.NoPos, m, []value{it.v, cp})
}

// ---- formatting ----

func bytesOfString(s string) []value { return strBytes(s) }

// fmtOperand renders one operand for %v / %s (and %d etc. where applicable).
func (i *interpreter) fmtOperand(fr *frame, verb byte, plus, sharp bool, arg value, depth int) []value {
	if depth > 8 {
		return bytesOfString("...")
	}
	it, isIface := arg.(iface)
	var t types.Type
	v := arg
	if isIface {
		if it.t == nil {
			if verb == 'v' || verb == 's' {
				return bytesOfString("<nil>")
			}
			return bytesOfString("%!" + string(verb) + "(<nil>)")
		}
		t, v = it.t, it.v
	}
	// error / Stringer first for %v %s %q
	if t != nil && (verb == 'v' || verb == 's' || verb == 'q') && !sharp {
		// a nil pointer receiver with a pointer-receiver method would panic in Go's fmt too ("<nil>")
		if pv, isPtr := v.(*value); isPtr && pv == nil {
			return bytesOfString("<nil>")
		}
		for _, name := range []string{"Error", "String"} {
			if m := i.findMethod(t, name, 0, 1); m != nil {
				if b, ok := m.Signature.Results().At(0).Type().Underlying().(*types.Basic); ok && b.Kind() == types.String {
					s := call(i, fr, token.NoPos, m, []value{v})
					if verb == 'q' {
						return bytesOfString(strconv.Quote(i.concretizeStr(s, "%q operand")))
					}
					return strBytes(s)
				}
			}
		}
	}
	switch x := v.(type) {
	case string:
		switch verb {
		case 'q':
			return bytesOfString(strconv.Quote(x))
		case 'x':
			return bytesOfString(fmt.Sprintf("%x", x))
		case 'X':
			return bytesOfString(fmt.Sprintf("%X", x))
		case 'v', 's':
			if sharp && verb == 'v' {
				return bytesOfString(strconv.Quote(x))
			}
			return bytesOfString(x)
		}
		return bytesOfString("%!" + string(verb) + "(string=" + x + ")")
	case sstr:
		switch verb {
		case 'v', 's':
			return x.b
		case 'q':
			return bytesOfString(strconv.Quote(i.concretizeStr(x, "%q operand")))
		}
		i.unsupported("fmt verb %%%c on a symbolic string", verb)
	case bool:
		if verb == 'v' || verb == 't' {
			return bytesOfString(strconv.FormatBool(x))
		}
		return bytesOfString("%!" + string(verb) + "(bool=" + strconv.FormatBool(x) + ")")
	case sym:
		if x.k == types.Bool {
			return bytesOfString(strconv.FormatBool(i.decide(x.t)))
		}
		if kindIsInt(x.k) {
			// The digits of a symbolic integer are not computed: the text gets an opaque
			// token. Code whose control flow depends on those digits is outside what the
			// engine can claim; translator validation flags any observed difference.
			i.ps.opaqueInts++
			return bytesOfString("\u2039int\u203a")
		}
		i.unsupported("fmt of a symbolic %v", x.k)
	case int, int8, int16, int32, int64:
		n := asInt64(x)
		switch verb {
		case 'v', 'd':
			s := strconv.FormatInt(n, 10)
			if plus && n >= 0 {
				s = "+" + s
			}
			return bytesOfString(s)
		case 'x':
			return bytesOfString(strconv.FormatInt(n, 16))
		case 'X':
			return bytesOfString(strings.ToUpper(strconv.FormatInt(n, 16)))
		case 'o':
			return bytesOfString(strconv.FormatInt(n, 8))
		case 'b':
			return bytesOfString(strconv.FormatInt(n, 2))
		case 'c':
			return bytesOfString(string(rune(n)))
		case 'q':
			return bytesOfString(strconv.QuoteRune(rune(n)))
		case 's':
			return bytesOfString(fmt.Sprintf("%%!s(%s=%d)", kindName(x), n))
		}
	case uint, uint8, uint16, uint32, uint64, uintptr:
		n := bitsOf(x)
		switch verb {
		case 'v', 'd':
			return bytesOfString(strconv.FormatUint(n, 10))
		case 'x':
			return bytesOfString(strconv.FormatUint(n, 16))
		case 'X':
			return bytesOfString(strings.ToUpper(strconv.FormatUint(n, 16)))
		case 'o':
			return bytesOfString(strconv.FormatUint(n, 8))
		case 'b':
			return bytesOfString(strconv.FormatUint(n, 2))
		case 'c':
			return bytesOfString(string(rune(n)))
		case 's':
			return bytesOfString(fmt.Sprintf("%%!s(%s=%d)", kindName(x), n))
		}
	case float32:
		return bytesOfString(fmt.Sprintf("%"+string(verb), x))
	case float64:
		return bytesOfString(fmt.Sprintf("%"+string(verb), x))
	case *value:
		if x == nil {
			return bytesOfString("<nil>")
		}
		if verb == 'v' && t != nil {
			// &{...} for pointers to structs
			if pt, ok := t.Underlying().(*types.Pointer); ok {
				if _, isStruct := pt.Elem().Underlying().(*types.Struct); isStruct {
					return append(bytesOfString("&"), i.fmtOperand(fr, verb, plus, sharp, iface{pt.Elem(), *x}, depth+1)...)
				}
			}
		}
		return bytesOfString("0xc000000000")
	case structure:
		var out []value
		out = append(out, uint8('{'))
		var st *types.Struct
		if t != nil {
			st, _ = t.Underlying().(*types.Struct)
		}
		for k, f := range x {
			if k > 0 {
				out = append(out, uint8(' '))
			}
			var ft types.Type
			if st != nil {
				ft = st.Field(k).Type()
				if plus {
					out = append(out, bytesOfString(st.Field(k).Name()+":")...)
				}
			}
			out = append(out, i.fmtOperand(fr, verb, plus, sharp, wrapForFmt(ft, f), depth+1)...)
		}
		return append(out, uint8('}'))
	case []value:
		if t != nil {
			if sl, ok := t.Underlying().(*types.Slice); ok {
				if b, ok := sl.Elem().Underlying().(*types.Basic); ok && b.Kind() == types.Uint8 && (verb == 's' || verb == 'x' || verb == 'q') {
					if verb == 's' {
						return x
					}
					s := i.concretizeStr(mkStr(x), "bytes formatted by fmt")
					return bytesOfString(fmt.Sprintf("%"+string(verb), []byte(s)))
				}
			}
		}
		var et types.Type
		if t != nil {
			if sl, ok := t.Underlying().(*types.Slice); ok {
				et = sl.Elem()
			}
		}
		out := []value{uint8('[')}
		for k, e := range x {
			if k > 0 {
				out = append(out, uint8(' '))
			}
			out = append(out, i.fmtOperand(fr, verb, plus, sharp, wrapForFmt(et, e), depth+1)...)
		}
		return append(out, uint8(']'))
	case array:
		var et types.Type
		if t != nil {
			if a, ok := t.Underlying().(*types.Array); ok {
				et = a.Elem()
			}
		}
		out := []value{uint8('[')}
		for k, e := range x {
			if k > 0 {
				out = append(out, uint8(' '))
			}
			out = append(out, i.fmtOperand(fr, verb, plus, sharp, wrapForFmt(et, e), depth+1)...)
		}
		return append(out, uint8(']'))
	case iface:
		return i.fmtOperand(fr, verb, plus, sharp, x, depth+1)
	case map[value]value, *hashmap:
		it := i.rangeIter(x, nil)
		out := bytesOfString("map[")
		first := true
		for {
			tu := it.next()
			if !tu[0].(bool) {
				break
			}
			if !first {
				out = append(out, uint8(' '))
			}
			first = false
			out = append(out, i.fmtOperand(fr, verb, plus, sharp, tu[1], depth+1)...)
			out = append(out, uint8(':'))
			out = append(out, i.fmtOperand(fr, verb, plus, sharp, tu[2], depth+1)...)
		}
		return append(out, uint8(']'))
	case *ssa.Function, *closure:
		return bytesOfString("0xfunc")
	case *vchan:
		return bytesOfString("0xchan")
	}
	i.unsupported("fmt: operand %T with verb %%%c", v, verb)
	return nil
}

func kindName(x value) string {
	return strings.ToLower(types.Typ[kindOfValue(x)].Name())
}

// wrapForFmt boxes a field/element of static type t like MakeInterface would.
func wrapForFmt(t types.Type, v value) value {
	if t == nil {
		return v
	}
	if _, isIface := t.Underlying().(*types.Interface); isIface {
		return v
	}
	return iface{t, v}
}

func (i *interpreter) fmtTypeName(arg value) string {
	it, ok := arg.(iface)
	if !ok || it.t == nil {
		return "<nil>"
	}
	return types.TypeString(it.t, func(p *types.Package) string { return p.Name() })
}

// format implements the Printf family for the supported verbs; it also
// returns the operands of %w verbs (for Errorf).
func (i *interpreter) format(fr *frame, formatV value, args []value) ([]value, []iface) {
	f := i.concretizeStr(formatV, "format string")
	var out []value
	var wrapped []iface
	argN := 0
	for p := 0; p < len(f); p++ {
		c := f[p]
		if c != '%' {
			out = append(out, c)
			continue
		}
		p++
		if p >= len(f) {
			out = append(out, bytesOfString("%!(NOVERB)")...)
			break
		}
		plus, sharp, minus, zero := false, false, false, false
		for ; p < len(f); p++ {
			switch f[p] {
			case '+':
				plus = true
				continue
			case '#':
				sharp = true
				continue
			case '-':
				minus = true
				continue
			case '0':
				zero = true
				continue
			case ' ':
				continue
			}
			break
		}
		width := -1
		for ; p < len(f) && f[p] >= '0' && f[p] <= '9'; p++ {
			if width < 0 {
				width = 0
			}
			width = width*10 + int(f[p]-'0')
		}
		prec := -1
		if p < len(f) && f[p] == '.' {
			p++
			prec = 0
			for ; p < len(f) && f[p] >= '0' && f[p] <= '9'; p++ {
				prec = prec*10 + int(f[p]-'0')
			}
		}
		if p >= len(f) {
			out = append(out, bytesOfString("%!(NOVERB)")...)
			break
		}
		verb := f[p]
		if verb == '%' {
			out = append(out, uint8('%'))
			continue
		}
		if argN >= len(args) {
			out = append(out, bytesOfString("%!"+string(verb)+"(MISSING)")...)
			continue
		}
		arg := args[argN]
		argN++
		var piece []value
		switch verb {
		case 'T':
			piece = bytesOfString(i.fmtTypeName(arg))
		case 'w':
			if it, ok := arg.(iface); ok && it.t != nil && types.Implements(it.t, types.Universe.Lookup("error").Type().Underlying().(*types.Interface)) {
				wrapped = append(wrapped, it)
				piece = i.fmtOperand(fr, 'v', plus, sharp, arg, 0)
			} else if ok && it.t == nil {
				piece = bytesOfString("%!w(<nil>)")
			} else {
				piece = append(bytesOfString("%!w("+i.fmtTypeName(arg)+"="), append(i.fmtOperand(fr, 'v', false, false, arg, 0), uint8(')'))...)
			}
		case 'f', 'g', 'e', 'F', 'G', 'E':
			it, _ := arg.(iface)
			spec := "%"
			if width >= 0 {
				spec += strconv.Itoa(width)
			}
			if prec >= 0 {
				spec += "." + strconv.Itoa(prec)
			}
			spec += string(verb)
			switch x := it.v.(type) {
			case float64:
				piece = bytesOfString(fmt.Sprintf(spec, x))
			case float32:
				piece = bytesOfString(fmt.Sprintf(spec, x))
			default:
				i.unsupported("fmt: %%%c on %T", verb, it.v)
			}
			width = -1
		default:
			piece = i.fmtOperand(fr, verb, plus, sharp, arg, 0)
			if prec >= 0 && (verb == 's' || verb == 'v') && len(piece) > prec {
				piece = piece[:prec]
			}
		}
		if width > len(piece) {
			pad := make([]value, width-len(piece))
			padc := uint8(' ')
			if zero && !minus {
				padc = '0'
			}
			for k := range pad {
				pad[k] = padc
			}
			if minus {
				piece = append(piece, pad...)
			} else {
				piece = append(pad, piece...)
			}
		}
		out = append(out, piece...)
	}
	if argN < len(args) {
		out = append(out, bytesOfString("%!(EXTRA ")...)
		for k := argN; k < len(args); k++ {
			if k > argN {
				out = append(out, bytesOfString(", ")...)
			}
			out = append(out, bytesOfString(i.fmtTypeName(args[k])+"=")...)
			out = append(out, i.fmtOperand(fr, 'v', false, false, args[k], 0)...)
		}
		out = append(out, uint8(')'))
	}
	return out, wrapped
}

// sprint implements Sprint / Sprintln operand spacing.
func (i *interpreter) sprint(fr *frame, args []value, ln bool) []value {
	var out []value
	prevString := false
	for k, a := range args {
		isString := false
		if it, ok := a.(iface); ok && it.t != nil {
			if b, ok := it.t.Underlying().(*types.Basic); ok && b.Kind() == types.String {
				isString = true
			}
		}
		if k > 0 && (ln || (!isString && !prevString)) {
			out = append(out, uint8(' '))
		}
		out = append(out, i.fmtOperand(fr, 'v', false, false, a, 0)...)
		prevString = isString
	}
	if ln {
		out = append(out, uint8('\n'))
	}
	return out
}

// extErrorf builds the same structures fmt.Errorf builds (*fmt.wrapError,
// *fmt.wrapErrors, *errors.errorString) so that interpreted Unwrap/Is logic
// sees what it sees natively.
func extErrorf(fr *frame, args []value) value {
	i := fr.i
	b, wrapped := i.format(fr, args[0], args[1].([]value))
	msg := mkStr(b)
	fmtPkg := i.prog.ImportedPackage("fmt")
	switch len(wrapped) {
	case 0:
		ep := i.prog.ImportedPackage("errors")
		t := ep.Type("errorString").Type()
		cell := value(structure{msg})
		return iface{types.NewPointer(t), &cell}
	case 1:
		t := fmtPkg.Type("wrapError").Type()
		cell := value(structure{msg, wrapped[0]})
		return iface{types.NewPointer(t), &cell}
	default:
		t := fmtPkg.Type("wrapErrors").Type()
		errs := make([]value, len(wrapped))
		for k, w := range wrapped {
			errs[k] = w
		}
		cell := value(structure{msg, errs})
		return iface{types.NewPointer(t), &cell}
	}
}
