package interp

// Virtual clock and timers (filled in by intrinsics_time.go).

type vtimer struct {
	when    int64 // virtual nanoseconds
	c       *vchan
	fired   bool
	stopped bool
	fn      func()
	period  int64
}


type vclock struct {
	i      *interpreter
	now    int64
	timers []*vtimer
}

// fireNext advances the clock to the earliest pending timer and fires it.
func (c *vclock) fireNext() bool {
	var best *vtimer
	for _, t := range c.timers {
		if t.fired || t.stopped {
			continue
		}
		if best == nil || t.when < best.when {
			best = t
		}
	}
	if best == nil {
		return false
	}
	if best.when > c.now {
		c.now = best.when
	}
	best.fire(c)
	return true
}

func (t *vtimer) fire(c *vclock) {
	t.fired = true
	if t.fn != nil {
		t.fn()
		return
	}
	if t.c != nil && len(t.c.buf) < t.c.cap {
		t.c.buf = append(t.c.buf, c.i.timeValue(c.now))
	}
	if t.period > 0 {
		t.fired = false
		t.when += t.period
	}
}

func (c *vclock) advance(d int64) {
	if d < 0 {
		return
	}
	target := c.now + d
	for {
		var best *vtimer
		for _, t := range c.timers {
			if t.fired || t.stopped {
				continue
			}
			if t.when <= target && (best == nil || t.when < best.when) {
				best = t
			}
		}
		if best == nil {
			break
		}
		if best.when > c.now {
			c.now = best.when
		}
		best.fire(c)
	}
	c.now = target
}

