package interp

// sync.Map as an insertion-ordered association list kept beside the
// interpreter (the real implementation is an unsafe hash trie).

import "go/token"

type smapEntry struct {
	k, v iface
}

type smap struct {
	entries []smapEntry
}

func (i *interpreter) smapFor(recv value) *smap {
	key := recv.(*value)
	if i.syncMaps == nil {
		i.syncMaps = map[*value]*smap{}
	}
	m := i.syncMaps[key]
	if m == nil {
		m = &smap{}
		i.syncMaps[key] = m
	}
	return m
}

func (m *smap) find(i *interpreter, k iface) int {
	for idx, e := range m.entries {
		if i.ifaceEq(e.k, k) {
			return idx
		}
	}
	return -1
}

func init() {
	externals["(*sync.Map).Load"] = func(fr *frame, args []value) value {
		m := fr.i.smapFor(args[0])
		if idx := m.find(fr.i, args[1].(iface)); idx >= 0 {
			return tuple{m.entries[idx].v, true}
		}
		return tuple{iface{}, false}
	}
	externals["(*sync.Map).Store"] = func(fr *frame, args []value) value {
		m := fr.i.smapFor(args[0])
		k, v := args[1].(iface), args[2].(iface)
		if idx := m.find(fr.i, k); idx >= 0 {
			m.entries[idx].v = v
		} else {
			m.entries = append(m.entries, smapEntry{k, v})
		}
		return nil
	}
	externals["(*sync.Map).Swap"] = func(fr *frame, args []value) value {
		m := fr.i.smapFor(args[0])
		k, v := args[1].(iface), args[2].(iface)
		if idx := m.find(fr.i, k); idx >= 0 {
			old := m.entries[idx].v
			m.entries[idx].v = v
			return tuple{old, true}
		}
		m.entries = append(m.entries, smapEntry{k, v})
		return tuple{iface{}, false}
	}
	externals["(*sync.Map).LoadOrStore"] = func(fr *frame, args []value) value {
		m := fr.i.smapFor(args[0])
		k, v := args[1].(iface), args[2].(iface)
		if idx := m.find(fr.i, k); idx >= 0 {
			return tuple{m.entries[idx].v, true}
		}
		m.entries = append(m.entries, smapEntry{k, v})
		return tuple{v, false}
	}
	del := func(fr *frame, args []value) value {
		m := fr.i.smapFor(args[0])
		if idx := m.find(fr.i, args[1].(iface)); idx >= 0 {
			old := m.entries[idx].v
			m.entries = append(m.entries[:idx], m.entries[idx+1:]...)
			return tuple{old, true}
		}
		return tuple{iface{}, false}
	}
	externals["(*sync.Map).LoadAndDelete"] = del
	externals["(*sync.Map).Delete"] = func(fr *frame, args []value) value { del(fr, args); return nil }
	externals["(*sync.Map).CompareAndSwap"] = func(fr *frame, args []value) value {
		m := fr.i.smapFor(args[0])
		if idx := m.find(fr.i, args[1].(iface)); idx >= 0 && fr.i.ifaceEq(m.entries[idx].v, args[2].(iface)) {
			m.entries[idx].v = args[3].(iface)
			return true
		}
		return false
	}
	externals["(*sync.Map).CompareAndDelete"] = func(fr *frame, args []value) value {
		m := fr.i.smapFor(args[0])
		if idx := m.find(fr.i, args[1].(iface)); idx >= 0 && fr.i.ifaceEq(m.entries[idx].v, args[2].(iface)) {
			m.entries = append(m.entries[:idx], m.entries[idx+1:]...)
			return true
		}
		return false
	}
	externals["(*sync.Map).Clear"] = func(fr *frame, args []value) value {
		fr.i.smapFor(args[0]).entries = nil
		return nil
	}
	externals["(*sync.Map).Range"] = func(fr *frame, args []value) value {
		m := fr.i.smapFor(args[0])
		snapshot := append([]smapEntry(nil), m.entries...)
		for _, e := range snapshot {
			if !fr.i.truth(call(fr.i, fr, token.NoPos, args[1], []value{e.k, e.v})) {
				break
			}
		}
		return nil
	}
}

// sort.Slice / sort.SliceStable: insertion sort calling the interpreted less
// (Go's pdqsort is an insertion sort below 12 elements, so small inputs sort
// identically; larger inputs may order equal elements differently).
func init() {
	sortSlice := func(fr *frame, args []value) value {
		it := args[0].(iface)
		s, ok := it.v.([]value)
		if !ok {
			fr.i.unsupported("sort.Slice on %T", it.v)
		}
		less := func(a, b int) bool {
			return fr.i.truth(call(fr.i, fr, token.NoPos, args[1], []value{a, b}))
		}
		for a := 1; a < len(s); a++ {
			for b := a; b > 0 && less(b, b-1); b-- {
				s[b], s[b-1] = s[b-1], s[b]
			}
		}
		return nil
	}
	externals["sort.Slice"] = sortSlice
	externals["sort.SliceStable"] = sortSlice
	externals["sort.SliceIsSorted"] = func(fr *frame, args []value) value {
		it := args[0].(iface)
		s, _ := it.v.([]value)
		for a := len(s) - 1; a > 0; a-- {
			if fr.i.truth(call(fr.i, fr, token.NoPos, args[1], []value{a, a - 1})) {
				return false
			}
		}
		return true
	}
}
