package interp

// Path exploration: stateless DFS by re-execution over a decision prefix.

import (
	"fmt"
	"sort"
	"strings"
)

type abortKind int

const (
	abortInfeasible  abortKind = iota // path condition unsatisfiable: drop silently
	abortUnsupported                  // construct the engine cannot encode
	abortBound                        // unwinding / step / concretisation bound hit
	abortSolver                       // solver unknown / timeout / error
	abortStop                         // path ended on purpose (assertion failed for all values, verif.Stop)
	abortNondet                       // re-execution diverged from the recorded prefix
	abortKilled                       // another goroutine of this path aborted
)

func (k abortKind) String() string {
	return [...]string{"infeasible", "unsupported", "bound_exceeded", "solver_inconclusive", "stop", "nondeterministic_replay", "killed"}[k]
}

// engineAbort is the panic value used to end a path from anywhere inside the
// interpreter. It is never visible to the interpreted program's recover().
type engineAbort struct {
	kind abortKind
	msg  string
}

func (e engineAbort) Error() string { return e.kind.String() + ": " + e.msg }

type decision struct {
	Implied bool   // branch whose outcome the path condition already implies (no alternative)
	Choice  bool   // free n-way choice (scheduler, select), Val = index
	Pick    bool   // concretisation pick (else boolean branch)
	Val     uint64 // candidate value of a pick
	Taken   bool
	Checked bool // feasibility of the prefix up to and including this decision is known
}

type inputVar struct {
	Name string
	Kind string // bool,int8..uint64,int,uint,float32,float64,byte
	t    *term
}

type assertRec struct {
	ID      string
	Outcome string // pass | fail | known
}

type violation struct {
	Harness   string
	AssertID  string
	Known     string // known-finding id when the failing inputs lie in a declared region
	Msg       string
	Inputs    map[string]string
	Decisions int
	PanicText string
}

type pathResult struct {
	Harness     string
	Status      string // ok | infeasible | unsupported | bound_exceeded | solver_inconclusive | stop | panic
	Msg         string
	Decisions   int
	Steps       int64
	Asserts     []assertRec
	Violations  []violation
	Inputs      map[string]string // model (only when sampled)
	Observes    map[string]string // observed values under that model
	PCSample    string
	KnownSeen   []string
	Reached     []string
	FailsAll    string // assertion that fails for every input of this path (path stopped there)
	funcsCalled map[string]int64
}

type pathState struct {
	tt        *termTable
	pc        []*term
	prefix    []decision
	decisions []decision
	depth     int
	vars      []inputVar
	nameCount map[string]int
	asserts   []assertRec
	viols     []violation
	observes  []observeRec
	reached   map[string]bool
	known     map[string]bool
	steps     int64
	alts      [][]decision // alternatives discovered on this path
	funcs     map[string]int64
	wantModel bool
	failsAll  string
	opaqueInts int
	knownDeadlockID   string
	knownDeadlockCond *value
	knownCrashID      string
	knownCrashCond    *value
	decided   map[*term]bool // conditions already implied by / added to the path condition
}

type observeRec struct {
	name string
	v    value
}

type limits struct {
	MaxSteps     int64
	MaxDecisions int
	MaxPicks     int
	MaxCallDepth int
}

// DefaultLimits returns the default per-path limits.
func DefaultLimits() Limits { return defaultLimits() }

// Limits bounds one path.
type Limits = limits

func defaultLimits() limits {
	return limits{MaxSteps: 5_000_000, MaxDecisions: 4000, MaxPicks: 16, MaxCallDepth: 400}
}

func (i *interpreter) abort(kind abortKind, format string, args ...interface{}) {
	panic(engineAbort{kind: kind, msg: fmt.Sprintf(format, args...)})
}

func (i *interpreter) unsupported(format string, args ...interface{}) {
	panic(engineAbort{kind: abortUnsupported, msg: fmt.Sprintf(format, args...)})
}

// addPC records c in the path condition and asserts it in the solver.
func (i *interpreter) addPC(c *term) {
	i.ps.pc = append(i.ps.pc, c)
	i.solver.assert(c)
}

func (i *interpreter) mustSat(what string) {
	switch i.solver.checkSat() {
	case "sat":
	case "unsat":
		i.abort(abortInfeasible, "%s", what)
	default:
		i.abort(abortSolver, "solver inconclusive at %s", what)
	}
}

// decide forks on the boolean term c.
func (i *interpreter) decide(c *term) bool {
	if c.isConst {
		return c.cv != 0
	}
	ps := i.ps
	tt := ps.tt
	if v, ok := ps.decided[c]; ok {
		return v
	}
	if ps.depth < len(ps.prefix) {
		d := ps.prefix[ps.depth]
		if d.Pick || d.Choice {
			i.abort(abortNondet, "expected a branch decision, prefix has a pick at depth %d", ps.depth)
		}
		ps.depth++
		ps.decisions = append(ps.decisions, decision{Taken: d.Taken, Checked: true, Implied: d.Implied})
		if d.Implied {
			ps.decided[c] = d.Taken
			ps.decided[tt.not(c)] = !d.Taken
			return d.Taken
		}
		if d.Taken {
			i.addPC(c)
		} else {
			i.addPC(tt.not(c))
		}
		ps.decided[c] = d.Taken
		ps.decided[tt.not(c)] = !d.Taken
		if ps.depth == len(ps.prefix) && !d.Checked {
			i.mustSat("resumed alternative")
		}
		return d.Taken
	}
	if v, ok := ps.decided[c]; ok {
		return v
	}
	if len(ps.decisions) >= i.limits.MaxDecisions {
		i.abort(abortBound, "more than %d decisions on one path", i.limits.MaxDecisions)
	}
	s := i.solver
	s.define(c)
	s.push()
	s.send("(assert " + c.ref() + ")")
	r := s.checkSat()
	s.pop()
	switch r {
	case "sat":
		// is the other side feasible too? (one query now is cheaper than a re-execution later)
		nc := tt.not(c)
		s.define(nc)
		s.push()
		s.send("(assert " + nc.ref() + ")")
		r2 := s.checkSat()
		s.pop()
		switch r2 {
		case "sat":
			alt := make([]decision, len(ps.decisions), len(ps.decisions)+1)
			copy(alt, ps.decisions)
			alt = append(alt, decision{Taken: false, Checked: true})
			ps.alts = append(ps.alts, alt)
			ps.decisions = append(ps.decisions, decision{Taken: true, Checked: true})
			ps.depth++
			i.addPC(c)
			ps.decided[c] = true
			ps.decided[nc] = false
		case "unsat":
			// c is implied by the path condition: recorded only to keep re-execution aligned
			ps.decisions = append(ps.decisions, decision{Taken: true, Checked: true, Implied: true})
			ps.depth++
			ps.decided[c] = true
			ps.decided[nc] = false
		default:
			i.abort(abortSolver, "solver inconclusive on branch feasibility")
		}
		return true
	case "unsat":
		// ¬c is implied (the path condition is satisfiable by invariant)
		ps.decisions = append(ps.decisions, decision{Taken: false, Checked: true, Implied: true})
		ps.depth++
		ps.decided[c] = false
		ps.decided[tt.not(c)] = true
		return false
	}
	i.abort(abortSolver, "solver inconclusive on branch feasibility")
	return false
}

// concretize forks over the feasible values of the bit-vector term t.
func (i *interpreter) concretize(t *term, why string) uint64 {
	if t.isConst {
		return t.cv
	}
	ps := i.ps
	tt := ps.tt
	for n := 0; ; n++ {
		if ps.depth < len(ps.prefix) {
			d := ps.prefix[ps.depth]
			if !d.Pick {
				i.abort(abortNondet, "expected a pick, prefix has a branch at depth %d", ps.depth)
			}
			ps.depth++
			ps.decisions = append(ps.decisions, decision{Pick: true, Val: d.Val, Taken: d.Taken, Checked: true})
			c := tt.eq(t, tt.mkBV(d.Val, t.sort.w))
			if d.Taken {
				i.addPC(c)
			} else {
				i.addPC(tt.not(c))
			}
			if ps.depth == len(ps.prefix) && !d.Checked {
				i.mustSat("resumed pick alternative")
			}
			if d.Taken {
				return d.Val
			}
			continue
		}
		if n >= i.limits.MaxPicks {
			i.abort(abortBound, "more than %d concrete values for a symbolic %s", i.limits.MaxPicks, why)
		}
		if len(ps.decisions) >= i.limits.MaxDecisions {
			i.abort(abortBound, "more than %d decisions on one path", i.limits.MaxDecisions)
		}
		i.mustSat("concretisation of " + why)
		v, err := i.solver.getValue(t)
		if err != nil {
			i.abort(abortSolver, "%v", err)
		}
		alt := make([]decision, len(ps.decisions), len(ps.decisions)+1)
		copy(alt, ps.decisions)
		alt = append(alt, decision{Pick: true, Val: v, Taken: false, Checked: false})
		ps.alts = append(ps.alts, alt)
		ps.decisions = append(ps.decisions, decision{Pick: true, Val: v, Taken: true, Checked: true})
		ps.depth++
		i.addPC(tt.eq(t, tt.mkBV(v, t.sort.w)))
		return v
	}
}

// freshName returns name#k for the k-th use of name on this path.
func (ps *pathState) freshName(name string) string {
	k := ps.nameCount[name]
	ps.nameCount[name] = k + 1
	return fmt.Sprintf("%s#%d", name, k)
}

func smtIdent(name string) string {
	return "|" + strings.NewReplacer("|", "_", "\\", "_").Replace(name) + "|"
}

func (i *interpreter) newInput(name, kind string, s tsort) *term {
	full := i.ps.freshName(name)
	t := i.ps.tt.mkVar(smtIdent(full), s)
	i.ps.vars = append(i.ps.vars, inputVar{Name: full, Kind: kind, t: t})
	i.solver.define(t) // declared at once: cvc5 refuses get-value on symbols declared after check-sat
	return t
}

// model returns the values of all input variables under the current path
// condition (which must be satisfiable and just checked).
func (i *interpreter) model() map[string]string {
	m := make(map[string]string)
	for _, v := range i.ps.vars {
		bits, err := i.solver.getValue(v.t)
		if err != nil {
			i.abort(abortSolver, "%v", err)
		}
		m[v.Name] = formatInput(v.Kind, bits)
	}
	return m
}

func formatInput(kind string, bits uint64) string {
	switch kind {
	case "bool":
		if bits != 0 {
			return "true"
		}
		return "false"
	case "int8":
		return fmt.Sprint(int8(bits))
	case "int16":
		return fmt.Sprint(int16(bits))
	case "int32":
		return fmt.Sprint(int32(bits))
	case "int64", "int":
		return fmt.Sprint(int64(bits))
	case "float32":
		return fmt.Sprintf("0x%08x", uint32(bits))
	case "float64":
		return fmt.Sprintf("0x%016x", bits)
	}
	return fmt.Sprint(bits)
}

func sortedKeys(m map[string]bool) []string {
	var ks []string
	for k := range m {
		ks = append(ks, k)
	}
	sort.Strings(ks)
	return ks
}
