package interp

// Symbolic scalar values and the Go operator semantics over them.

import (
	"fmt"
	"go/token"
	"go/types"
	"math"
)

// sym is a scalar whose value is an SMT term. k is the Go basic kind.
type sym struct {
	t *term
	k types.BasicKind
}

func kindWidth(k types.BasicKind) int {
	switch k {
	case types.Int8, types.Uint8:
		return 8
	case types.Int16, types.Uint16:
		return 16
	case types.Int32, types.Uint32, types.Float32:
		return 32
	case types.Int, types.Uint, types.Int64, types.Uint64, types.Uintptr, types.Float64:
		return 64
	}
	panic(fmt.Sprintf("kindWidth(%v)", k))
}

func kindSigned(k types.BasicKind) bool {
	switch k {
	case types.Int, types.Int8, types.Int16, types.Int32, types.Int64:
		return true
	}
	return false
}

func kindIsFloat(k types.BasicKind) bool { return k == types.Float32 || k == types.Float64 }
func kindIsInt(k types.BasicKind) bool {
	switch k {
	case types.Int, types.Int8, types.Int16, types.Int32, types.Int64,
		types.Uint, types.Uint8, types.Uint16, types.Uint32, types.Uint64, types.Uintptr:
		return true
	}
	return false
}

func kindOfValue(x value) types.BasicKind {
	switch x := x.(type) {
	case sym:
		return x.k
	case bool:
		return types.Bool
	case int:
		return types.Int
	case int8:
		return types.Int8
	case int16:
		return types.Int16
	case int32:
		return types.Int32
	case int64:
		return types.Int64
	case uint:
		return types.Uint
	case uint8:
		return types.Uint8
	case uint16:
		return types.Uint16
	case uint32:
		return types.Uint32
	case uint64:
		return types.Uint64
	case uintptr:
		return types.Uintptr
	case float32:
		return types.Float32
	case float64:
		return types.Float64
	case string:
		return types.String
	}
	return types.Invalid
}

func basicKind(t types.Type) types.BasicKind {
	if b, ok := t.Underlying().(*types.Basic); ok {
		k := b.Kind()
		switch k {
		case types.UntypedBool:
			return types.Bool
		case types.UntypedInt:
			return types.Int
		case types.UntypedRune:
			return types.Int32
		case types.UntypedFloat:
			return types.Float64
		case types.UntypedString:
			return types.String
		}
		return k
	}
	return types.Invalid
}

// bitsOf returns the bit pattern of a concrete scalar.
func bitsOf(x value) uint64 {
	switch x := x.(type) {
	case bool:
		if x {
			return 1
		}
		return 0
	case int:
		return uint64(x)
	case int8:
		return uint64(uint8(x))
	case int16:
		return uint64(uint16(x))
	case int32:
		return uint64(uint32(x))
	case int64:
		return uint64(x)
	case uint:
		return uint64(x)
	case uint8:
		return uint64(x)
	case uint16:
		return uint64(x)
	case uint32:
		return uint64(x)
	case uint64:
		return x
	case uintptr:
		return uint64(x)
	case float32:
		return uint64(math.Float32bits(x))
	case float64:
		return math.Float64bits(x)
	}
	panic(fmt.Sprintf("bitsOf(%T)", x))
}

// fromBits builds the concrete scalar of kind k with the given bit pattern.
func fromBits(k types.BasicKind, b uint64) value {
	switch k {
	case types.Bool:
		return b != 0
	case types.Int:
		return int(b)
	case types.Int8:
		return int8(b)
	case types.Int16:
		return int16(b)
	case types.Int32:
		return int32(b)
	case types.Int64:
		return int64(b)
	case types.Uint:
		return uint(b)
	case types.Uint8:
		return uint8(b)
	case types.Uint16:
		return uint16(b)
	case types.Uint32:
		return uint32(b)
	case types.Uint64:
		return b
	case types.Uintptr:
		return uintptr(b)
	case types.Float32:
		return math.Float32frombits(uint32(b))
	case types.Float64:
		return math.Float64frombits(b)
	}
	panic(fmt.Sprintf("fromBits(%v)", k))
}

func isSym(x value) bool { _, ok := x.(sym); return ok }

// termOf returns the term for a (symbolic or concrete) scalar.
func (i *interpreter) termOf(x value) *term {
	tt := i.ps.tt
	switch x := x.(type) {
	case sym:
		return x.t
	case bool:
		return tt.mkBool(x)
	case float32:
		return tt.mkFP(uint64(math.Float32bits(x)), 32)
	case float64:
		return tt.mkFP(math.Float64bits(x), 64)
	}
	k := kindOfValue(x)
	if kindIsInt(k) {
		return tt.mkBV(bitsOf(x), kindWidth(k))
	}
	panic(engineAbort{kind: abortUnsupported, msg: fmt.Sprintf("termOf(%T)", x)})
}

// mkSym wraps t as a value of kind k, folding constants back to concrete values.
func mkSym(t *term, k types.BasicKind) value {
	if t.isConst {
		return fromBits(k, t.cv)
	}
	return sym{t, k}
}

func (i *interpreter) symBinop(op token.Token, x, y value) value {
	tt := i.ps.tt
	k := kindOfValue(x)
	if _, ok := x.(sym); !ok && op != token.SHL && op != token.SHR {
		k = kindOfValue(y)
	}
	if op == token.SHL || op == token.SHR {
		return i.symShift(op, x, y)
	}
	a, b := i.termOf(x), i.termOf(y)
	if k == types.Bool {
		switch op {
		case token.EQL:
			return mkSym(tt.eq(a, b), types.Bool)
		case token.NEQ:
			return mkSym(tt.not(tt.eq(a, b)), types.Bool)
		case token.AND: // not produced by go/ssa, kept for verif.And
			return mkSym(tt.and(a, b), types.Bool)
		case token.OR:
			return mkSym(tt.or(a, b), types.Bool)
		}
		i.unsupported("symbolic bool op %s", op)
	}
	if kindIsFloat(k) {
		s := a.sort
		switch op {
		case token.ADD:
			return mkSym(tt.mk("fp.add", s, a, b), k)
		case token.SUB:
			return mkSym(tt.mk("fp.sub", s, a, b), k)
		case token.MUL:
			return mkSym(tt.mk("fp.mul", s, a, b), k)
		case token.QUO:
			return mkSym(tt.mk("fp.div", s, a, b), k)
		case token.LSS:
			return mkSym(tt.mk("fp.lt", boolSort, a, b), types.Bool)
		case token.LEQ:
			return mkSym(tt.mk("fp.leq", boolSort, a, b), types.Bool)
		case token.GTR:
			return mkSym(tt.mk("fp.gt", boolSort, a, b), types.Bool)
		case token.GEQ:
			return mkSym(tt.mk("fp.geq", boolSort, a, b), types.Bool)
		case token.EQL:
			return mkSym(tt.mk("fp.eq", boolSort, a, b), types.Bool)
		case token.NEQ:
			return mkSym(tt.not(tt.mk("fp.eq", boolSort, a, b)), types.Bool)
		}
		i.unsupported("symbolic float op %s", op)
	}
	if !kindIsInt(k) {
		i.unsupported("symbolic binop %s on %T, %T", op, x, y)
	}
	s := a.sort
	signed := kindSigned(k)
	pick := func(sOp, uOp string) string {
		if signed {
			return sOp
		}
		return uOp
	}
	switch op {
	case token.ADD:
		return mkSym(tt.mk("bvadd", s, a, b), k)
	case token.SUB:
		return mkSym(tt.mk("bvsub", s, a, b), k)
	case token.MUL:
		return mkSym(tt.mk("bvmul", s, a, b), k)
	case token.QUO, token.REM:
		if i.decide(tt.eq(b, tt.mkBV(0, s.w))) {
			panic(runtimeErrorText("integer divide by zero"))
		}
		if op == token.QUO {
			return mkSym(tt.mk(pick("bvsdiv", "bvudiv"), s, a, b), k)
		}
		return mkSym(tt.mk(pick("bvsrem", "bvurem"), s, a, b), k)
	case token.AND:
		return mkSym(tt.mk("bvand", s, a, b), k)
	case token.OR:
		return mkSym(tt.mk("bvor", s, a, b), k)
	case token.XOR:
		return mkSym(tt.mk("bvxor", s, a, b), k)
	case token.AND_NOT:
		return mkSym(tt.mk("bvand", s, a, tt.mk("bvnot", s, b)), k)
	case token.LSS:
		return mkSym(tt.mk(pick("bvslt", "bvult"), boolSort, a, b), types.Bool)
	case token.LEQ:
		return mkSym(tt.mk(pick("bvsle", "bvule"), boolSort, a, b), types.Bool)
	case token.GTR:
		return mkSym(tt.mk(pick("bvsgt", "bvugt"), boolSort, a, b), types.Bool)
	case token.GEQ:
		return mkSym(tt.mk(pick("bvsge", "bvuge"), boolSort, a, b), types.Bool)
	case token.EQL:
		return mkSym(tt.eq(a, b), types.Bool)
	case token.NEQ:
		return mkSym(tt.not(tt.eq(a, b)), types.Bool)
	}
	i.unsupported("symbolic int op %s", op)
	return nil
}

// runtimeErrorText is the panic payload for runtime errors raised by the
// symbolic operators (recoverable by the interpreted program, like the host
// runtime.Error values the concrete operators raise).
type runtimeErrorText string

func (e runtimeErrorText) Error() string { return "runtime error: " + string(e) }
func (e runtimeErrorText) RuntimeError() {}

func (i *interpreter) symShift(op token.Token, x, y value) value {
	tt := i.ps.tt
	kx := kindOfValue(x)
	ky := kindOfValue(y)
	a, c := i.termOf(x), i.termOf(y)
	w := a.sort.w
	if kindSigned(ky) {
		if i.decide(tt.mk("bvslt", boolSort, c, tt.mkBV(0, c.sort.w))) {
			panic(runtimeErrorText("negative shift amount"))
		}
	}
	// big := count >= w (unsigned, in the count's own width)
	var big *term
	if c.sort.w < 8 && false {
		big = tt.mkBool(false)
	} else {
		big = tt.mk("bvuge", boolSort, c, tt.mkBV(uint64(w), c.sort.w))
		if c.sort.w < 64 && uint64(w) >= uint64(1)<<uint(c.sort.w) {
			big = tt.mkBool(false)
		}
	}
	// resize count to w
	var cw *term
	switch {
	case c.sort.w == w:
		cw = c
	case c.sort.w > w:
		cw = tt.mkP("extract", bvSort(w), w-1, 0, c)
	default:
		cw = tt.mkP("zero_extend", bvSort(w), w-c.sort.w, 0, c)
	}
	var res *term
	if op == token.SHL {
		res = tt.ite(big, tt.mkBV(0, w), tt.mk("bvshl", a.sort, a, cw))
	} else if kindSigned(kx) {
		fill := tt.mk("bvashr", a.sort, a, tt.mkBV(uint64(w-1), w))
		res = tt.ite(big, fill, tt.mk("bvashr", a.sort, a, cw))
	} else {
		res = tt.ite(big, tt.mkBV(0, w), tt.mk("bvlshr", a.sort, a, cw))
	}
	return mkSym(res, kx)
}

func (i *interpreter) symUnop(op token.Token, x sym) value {
	tt := i.ps.tt
	switch op {
	case token.NOT:
		return mkSym(tt.not(x.t), types.Bool)
	case token.SUB:
		if kindIsFloat(x.k) {
			return mkSym(tt.mk("fp.neg", x.t.sort, x.t), x.k)
		}
		return mkSym(tt.mk("bvneg", x.t.sort, x.t), x.k)
	case token.XOR:
		return mkSym(tt.mk("bvnot", x.t.sort, x.t), x.k)
	}
	i.unsupported("symbolic unop %s", op)
	return nil
}

// resizeBV converts BV term a (signedness of the source) to width w.
func (tt *termTable) resizeBV(a *term, srcSigned bool, w int) *term {
	switch {
	case a.sort.w == w:
		return a
	case a.sort.w > w:
		return tt.mkP("extract", bvSort(w), w-1, 0, a)
	case srcSigned:
		return tt.mkP("sign_extend", bvSort(w), w-a.sort.w, 0, a)
	default:
		return tt.mkP("zero_extend", bvSort(w), w-a.sort.w, 0, a)
	}
}

// fpConstOf returns the float constant 2^e of the given width as a term.
func (tt *termTable) fpPow2(e int, w int, neg bool) *term {
	f := math.Ldexp(1, e)
	if neg {
		f = -f
	}
	if w == 32 {
		return tt.mkFP(uint64(math.Float32bits(float32(f))), 32)
	}
	return tt.mkFP(math.Float64bits(f), 64)
}

// floatToSigned models the amd64 CVTTSS2SI/CVTTSD2SI family: truncation inside
// the range of the w-bit signed integer, the "integer indefinite" 0x80…0
// outside it and for NaN.
func (tt *termTable) floatToSigned(a *term, w int) *term {
	lo := tt.fpPow2(w-1, a.sort.w, true)  // -2^(w-1), representable
	hi := tt.fpPow2(w-1, a.sort.w, false) // 2^(w-1)
	// in range  <=>  trunc(a) in [-2^(w-1), 2^(w-1)-1]  <=>  a > -2^(w-1)-1 && a < 2^(w-1)
	// computed on the truncated value to stay exact: rti(a) >= lo && rti(a) < hi
	r := tt.mk("fp.rti_rtz", a.sort, a)
	in := tt.and(tt.mk("fp.geq", boolSort, r, lo), tt.mk("fp.lt", boolSort, r, hi))
	conv := tt.mk("fp.to_sbv", bvSort(w), a)
	return tt.ite(in, conv, tt.mkBV(uint64(1)<<uint(w-1), w))
}

func (i *interpreter) symConv(dstKind types.BasicKind, x sym) value {
	tt := i.ps.tt
	src := x.k
	a := x.t
	switch {
	case src == types.Bool && dstKind == types.Bool:
		return x
	case kindIsInt(src) && kindIsInt(dstKind):
		return mkSym(tt.resizeBV(a, kindSigned(src), kindWidth(dstKind)), dstKind)
	case kindIsInt(src) && kindIsFloat(dstKind):
		op := "to_fp_u"
		if kindSigned(src) {
			op = "to_fp_s"
		}
		return mkSym(tt.mk(op, fpSort(kindWidth(dstKind)), a), dstKind)
	case kindIsFloat(src) && kindIsFloat(dstKind):
		if src == dstKind {
			return x
		}
		return mkSym(tt.mk("to_fp_f", fpSort(kindWidth(dstKind)), a), dstKind)
	case kindIsFloat(src) && kindIsInt(dstKind):
		return mkSym(tt.floatToInt(a, dstKind), dstKind)
	}
	i.unsupported("symbolic conversion %v -> %v", src, dstKind)
	return nil
}

// floatToInt encodes the code sequences the gc compiler emits on amd64 for
// float -> integer conversions (cmd/compile/internal/ssagen: the 8/16-bit
// targets go through a 32-bit signed conversion, uint32 through a 64-bit
// signed conversion, uint64 through the two-range sequence).
func (tt *termTable) floatToInt(a *term, dst types.BasicKind) *term {
	switch dst {
	case types.Int64, types.Int:
		return tt.floatToSigned(a, 64)
	case types.Int32:
		return tt.floatToSigned(a, 32)
	case types.Int16, types.Int8, types.Uint16, types.Uint8:
		return tt.resizeBV(tt.floatToSigned(a, 32), true, kindWidth(dst))
	case types.Uint32:
		return tt.resizeBV(tt.floatToSigned(a, 64), true, 32)
	case types.Uint64, types.Uint, types.Uintptr:
		// if a < 2^63 { uint64(int64(a)) } else { int64(a - 2^63) | 0x8000000000000000 }
		two63 := tt.fpPow2(63, a.sort.w, false)
		lt := tt.mk("fp.lt", boolSort, a, two63)
		lowv := tt.floatToSigned(a, 64)
		hiv := tt.mk("bvor", bvSort(64), tt.floatToSigned(tt.mk("fp.sub", a.sort, a, two63), 64), tt.mkBV(1<<63, 64))
		return tt.ite(lt, lowv, hiv)
	}
	panic("floatToInt: " + fmt.Sprint(dst))
}
