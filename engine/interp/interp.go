// Copyright 2013 The Go Authors. All rights reserved.
// Use of this source code is governed by a BSD-style
// license that can be found in the LICENSE file.

// Package ssa/interp defines an interpreter for the SSA
// representation of Go programs.
//
// This interpreter is provided as an adjunct for testing the SSA
// construction algorithm.  Its purpose is to provide a minimal
// metacircular implementation of the dynamic semantics of each SSA
// instruction.  It is not, and will never be, a production-quality Go
// interpreter.
//
// The following is a partial list of Go features that are currently
// unsupported or incomplete in the interpreter.
//
// * Unsafe operations, including all uses of unsafe.Pointer, are
// impossible to support given the "boxed" value representation we
// have chosen.
//
// * The reflect package is only partially implemented.
//
// * The "testing" package is no longer supported because it
// depends on low-level details that change too often.
//
// * "sync/atomic" operations are not atomic due to the "boxed" value
// representation: it is not possible to read, modify and write an
// interface value atomically. As a consequence, Mutexes are currently
// broken.
//
// * recover is only partially implemented.  Also, the interpreter
// makes no attempt to distinguish target panics from interpreter
// crashes.
//
// * the sizes of the int, uint and uintptr types in the target
// program are assumed to be the same as those of the interpreter
// itself.
//
// * all values occupy space, even those of types defined by the spec
// to have zero size, e.g. struct{}.  This can cause asymptotic
// performance degradation.
//
// * os.Exit is implemented using panic, causing deferred functions to
// run.
package interp // import "golang.org/x/tools/go/ssa/interp"

import (
	"fmt"
	"go/token"
	"go/types"
	"os"
	"runtime"
	"slices"
	_ "unsafe"

	"golang.org/x/tools/go/ssa"
	)

type continuation int

const (
	kNext continuation = iota
	kReturn
	kJump
)

// Mode is a bitmask of options affecting the interpreter.
type Mode uint

const (
	DisableRecover Mode = 1 << iota // Disable recover() in target programs; show interpreter crash instead.
	EnableTracing                   // Print a trace of all instructions as they are interpreted.
)

type methodSet map[string]*ssa.Function

// State shared between all interpreted goroutines.
type interpreter struct {
	osArgs             []value                // the value of os.Args
	prog               *ssa.Program           // the SSA program
	globals            map[*ssa.Global]*value // addresses of global variables (immutable)
	mode               Mode                   // interpreter options
	reflectPackage     *ssa.Package           // the fake reflect package
	errorMethods       methodSet              // the method set of reflect.error, which implements the error interface.
	rtypeMethods       methodSet              // the method set of rtype, which implements the reflect.Type interface.
	runtimeErrorString types.Type             // the runtime.errorString type
	sizes              types.Sizes            // the effective type-sizing function
	goroutines         int32                  // atomically updated

	// --- gosym ---
	ps        *pathState
	solver    *solver
	limits    limits
	cfg       *Config
	inInit    bool                   // executing package initialisers (tolerant mode)
	initDepth int
	poisoned  map[*ssa.Global]string // globals whose initialiser could not be run
	spawned   []*spawnedGo           // goroutines recorded by `go` (sequential tier)
	clock     *vclock
	callDepth int
	sched     *scheduler
	curG      *goroutine
	harnessState map[string]value
	program   *Program
	callStack []*ssa.Function
	lastFault string
	lastFaultVal interface{}
	initStarted map[*ssa.Function]bool
	pkgInitDone map[*ssa.Package]bool
	locks     map[*value]*lockState
	onces     map[*value]int
	wgs       map[*value]int
	timers    map[*value]*vtimer
	syncMaps  map[*value]*smap
}

type deferred struct {
	fn    value
	args  []value
	instr *ssa.Defer
	tail  *deferred
}

type frame struct {
	i                *interpreter
	caller           *frame
	fn               *ssa.Function
	block, prevBlock *ssa.BasicBlock
	env              map[ssa.Value]value // dynamic values of SSA variables
	locals           []value
	defers           *deferred
	result           value
	panicking        bool
	panic            interface{}
	phitemps         []value // temporaries for parallel phi assignment
	tolerant         bool    // package initialiser: a failing instruction yields poison instead of unwinding
}

func (fr *frame) get(key ssa.Value) value {
	switch key := key.(type) {
	case nil:
		// Hack; simplifies handling of optional attributes
		// such as ssa.Slice.{Low,High}.
		return nil
	case *ssa.Function, *ssa.Builtin:
		return key
	case *ssa.Const:
		return constValue(key)
	case *ssa.Global:
		return fr.i.globalCell(key)
	}
	if r, ok := fr.env[key]; ok {
		return r
	}
	panic(fmt.Sprintf("get: no value for %T: %v", key, key.Name()))
}

// runDefer runs a deferred call d.
// It always returns normally, but may set or clear fr.panic.
func (fr *frame) runDefer(d *deferred) {
	if fr.i.mode&EnableTracing != 0 {
		fmt.Fprintf(os.Stderr, "%s: invoking deferred function call\n",
			fr.i.prog.Fset.Position(d.instr.Pos()))
	}
	var ok bool
	defer func() {
		if !ok {
			// Deferred call created a new state of panic.
			fr.panicking = true
			fr.panic = recover()
			if ea, isAbort := fr.panic.(engineAbort); isAbort {
				panic(ea)
			}
			if dl, isDeadlock := fr.panic.(pathDeadlock); isDeadlock {
				panic(dl)
			}
		}
	}()
	call(fr.i, fr, d.instr.Pos(), d.fn, d.args)
	ok = true
}

// runDefers executes fr's deferred function calls in LIFO order.
//
// On entry, fr.panicking indicates a state of panic; if
// true, fr.panic contains the panic value.
//
// On completion, if a deferred call started a panic, or if no
// deferred call recovered from a previous state of panic, then
// runDefers itself panics after the last deferred call has run.
//
// If there was no initial state of panic, or it was recovered from,
// runDefers returns normally.
func (fr *frame) runDefers() {
	for d := fr.defers; d != nil; d = d.tail {
		fr.runDefer(d)
	}
	fr.defers = nil
	if fr.panicking {
		panic(fr.panic) // new panic, or still panicking
	}
}

// lookupMethod returns the method set for type typ, which may be one
// of the interpreter's fake types.
func lookupMethod(i *interpreter, typ types.Type, meth *types.Func) *ssa.Function {
	switch typ {
	case rtypeType:
		return i.rtypeMethods[meth.Id()]
	case errorType:
		return i.errorMethods[meth.Id()]
	}
	return i.prog.LookupMethod(typ, meth.Pkg(), meth.Name())
}

// visitInstr interprets a single ssa.Instruction within the activation
// record frame.  It returns a continuation value indicating where to
// read the next instruction from.
func visitInstr(fr *frame, instr ssa.Instruction) continuation {
	switch instr := instr.(type) {
	case *ssa.DebugRef:
		// no-op

	case *ssa.UnOp:
		fr.env[instr] = unop(fr, instr, fr.get(instr.X))

	case *ssa.BinOp:
		fr.env[instr] = binop(instr.Op, instr.X.Type(), fr.get(instr.X), fr.get(instr.Y))

	case *ssa.Call:
		fn, args := prepareCall(fr, &instr.Call)
		fr.env[instr] = call(fr.i, fr, instr.Pos(), fn, args)

	case *ssa.ChangeInterface:
		fr.env[instr] = fr.get(instr.X)

	case *ssa.ChangeType:
		fr.env[instr] = fr.get(instr.X) // (can't fail)

	case *ssa.Convert:
		fr.env[instr] = conv(instr.Type(), instr.X.Type(), fr.get(instr.X))

	case *ssa.SliceToArrayPointer:
		fr.env[instr] = sliceToArrayPointer(instr.Type(), instr.X.Type(), fr.get(instr.X))

	case *ssa.MakeInterface:
		fr.env[instr] = iface{t: instr.X.Type(), v: fr.get(instr.X)}

	case *ssa.Extract:
		fr.env[instr] = fr.get(instr.Tuple).(tuple)[instr.Index]

	case *ssa.Slice:
		fr.env[instr] = fr.i.sliceOp(fr.get(instr.X), fr.get(instr.Low), fr.get(instr.High), fr.get(instr.Max))

	case *ssa.Return:
		switch len(instr.Results) {
		case 0:
		case 1:
			fr.result = fr.get(instr.Results[0])
		default:
			var res []value
			for _, r := range instr.Results {
				res = append(res, fr.get(r))
			}
			fr.result = tuple(res)
		}
		fr.block = nil
		return kReturn

	case *ssa.RunDefers:
		fr.runDefers()

	case *ssa.Panic:
		panic(targetPanic{fr.get(instr.X)})

	case *ssa.Send:
		fr.i.chanSend(fr.get(instr.Chan).(*vchan), fr.get(instr.X))

	case *ssa.Store:
		if fr.i.sched != nil && fr.i.sched.racy && !isLocalAlloc(instr.Addr) {
			fr.i.yield("mem")
		}
		store(mustDeref(instr.Addr.Type()), fr.get(instr.Addr).(*value), fr.get(instr.Val))

	case *ssa.If:
		succ := 1
		if p, ok := fr.get(instr.Cond).(poison); ok {
			panic(initAbort{"branch on a poisoned value in " + fr.fn.String() + ": " + p.why})
		}
		if fr.i.truth(fr.get(instr.Cond)) {
			succ = 0
		}
		fr.prevBlock, fr.block = fr.block, fr.block.Succs[succ]
		return kJump

	case *ssa.Jump:
		fr.prevBlock, fr.block = fr.block, fr.block.Succs[0]
		return kJump

	case *ssa.Defer:
		fn, args := prepareCall(fr, &instr.Call)
		defers := &fr.defers
		if into := fr.get(instr.DeferStack); into != nil {
			defers = into.(**deferred)
		}
		*defers = &deferred{
			fn:    fn,
			args:  args,
			instr: instr,
			tail:  *defers,
		}

	case *ssa.Go:
		fn, args := prepareCall(fr, &instr.Call)
		fr.i.spawn(instr, fn, args)

	case *ssa.MakeChan:
		fr.env[instr] = fr.i.makeChan(instr, fr.i.concretizeInt(fr.get(instr.Size), "channel size"))

	case *ssa.Alloc:
		var addr *value
		if instr.Heap {
			// new
			addr = new(value)
			fr.env[instr] = addr
		} else {
			// local
			addr = fr.env[instr].(*value)
		}
		*addr = zero(mustDeref(instr.Type()))

	case *ssa.MakeSlice:
		capv := asInt64(fr.i.concretizeInt(fr.get(instr.Cap), "make cap"))
		lenv := asInt64(fr.i.concretizeInt(fr.get(instr.Len), "make len"))
		if lenv < 0 || capv < lenv {
			panic(runtimeErrorText("makeslice: len out of range"))
		}
		if capv > 1<<24 {
			fr.i.abort(abortBound, "make([]T, %d): larger than the engine's 16M element limit", capv)
		}
		slice := make([]value, capv)
		tElt := instr.Type().Underlying().(*types.Slice).Elem()
		for i := range slice {
			slice[i] = zero(tElt)
		}
		fr.env[instr] = slice[:lenv]

	case *ssa.MakeMap:
		var reserve int64
		if instr.Reserve != nil {
			reserve = asInt64(fr.i.concretizeInt(fr.get(instr.Reserve), "map reserve"))
		}
		if !fitsInt(reserve, fr.i.sizes) {
			panic(fmt.Sprintf("ssa.MakeMap.Reserve value %d does not fit in int", reserve))
		}
		fr.env[instr] = makeMap(instr.Type().Underlying().(*types.Map).Key(), reserve)

	case *ssa.Range:
		fr.env[instr] = fr.i.rangeIter(fr.get(instr.X), instr.X.Type())

	case *ssa.Next:
		fr.env[instr] = fr.get(instr.Iter).(iter).next()

	case *ssa.FieldAddr:
		px := fr.get(instr.X).(*value)
		if px == nil {
			panic(runtimeErrorText("invalid memory address or nil pointer dereference"))
		}
		fr.env[instr] = &(*px).(structure)[instr.Field]

	case *ssa.Field:
		fr.env[instr] = fr.get(instr.X).(structure)[instr.Field]

	case *ssa.IndexAddr:
		x := fr.get(instr.X)
		idx := fr.get(instr.Index)
		if sidx, ok := idx.(sym); ok {
			// pattern "load of a[i]" with symbolic i over scalars: an ite chain instead of forking
			if refs := instr.Referrers(); refs != nil && len(*refs) == 1 {
				if ld, ok := (*refs)[0].(*ssa.UnOp); ok && ld.Op == token.MUL {
					var elems []value
					switch x := x.(type) {
					case []value:
						elems = x
					case *value:
						if x != nil {
							elems = (*x).(array)
						}
					}
					if len(elems) > 0 && len(elems) <= 1024 && allScalars(elems) {
						fr.env[instr] = symRef{elems, sidx}
						break
					}
				}
			}
		}
		switch x := x.(type) {
		case []value:
			fr.env[instr] = &x[fr.i.symIndex(idx, len(x), "slice index")]
		case *value: // *array
			if x == nil {
				panic(runtimeErrorText("invalid memory address or nil pointer dereference"))
			}
			a := (*x).(array)
			fr.env[instr] = &a[fr.i.symIndex(idx, len(a), "array index")]
		default:
			panic(fmt.Sprintf("unexpected x type in IndexAddr: %T", x))
		}

	case *ssa.Index:
		x := fr.get(instr.X)
		idx := fr.get(instr.Index)

		fr.env[instr] = fr.i.indexOp(x, idx)

	case *ssa.Lookup:
		fr.env[instr] = fr.i.lookupOp(instr, fr.get(instr.X), fr.get(instr.Index))

	case *ssa.MapUpdate:
		m := fr.get(instr.Map)
		key := fr.i.concreteKey(fr.get(instr.Key))
		v := fr.get(instr.Value)
		switch m := m.(type) {
		case map[value]value:
			m[key] = v
		case *hashmap:
			m.insert(key.(hashable), v)
		default:
			panic(fmt.Sprintf("illegal map type: %T", m))
		}

	case *ssa.TypeAssert:
		fr.env[instr] = typeAssert(fr.i, instr, fr.get(instr.X).(iface))

	case *ssa.MakeClosure:
		var bindings []value
		for _, binding := range instr.Bindings {
			bindings = append(bindings, fr.get(binding))
		}
		fr.env[instr] = &closure{instr.Fn.(*ssa.Function), bindings}

	case *ssa.Phi:
		panic("unreachable") // phis are processed at block entry

	case *ssa.Select:
		fr.env[instr] = fr.i.selectOp(fr, instr)

	default:
		panic(fmt.Sprintf("unexpected instruction: %T", instr))
	}

	// if val, ok := instr.(ssa.Value); ok {
	// 	fmt.Println(toString(fr.env[val])) // debugging
	// }

	return kNext
}

// prepareCall determines the function value and argument values for a
// function call in a Call, Go or Defer instruction, performing
// interface method lookup if needed.
func prepareCall(fr *frame, call *ssa.CallCommon) (fn value, args []value) {
	v := fr.get(call.Value)
	if call.Method == nil {
		// Function call.
		fn = v
	} else {
		// Interface method invocation.
		recv := v.(iface)
		if recv.t == nil {
			panic("method invoked on nil interface")
		}
		if f := lookupMethod(fr.i, recv.t, call.Method); f == nil {
			// Unreachable in well-typed programs.
			panic(fmt.Sprintf("method set for dynamic type %v does not contain %s", recv.t, call.Method))
		} else {
			fn = f
		}
		args = append(args, recv.v)
	}
	for _, arg := range call.Args {
		args = append(args, fr.get(arg))
	}
	return
}

// call interprets a call to a function (function, builtin or closure)
// fn with arguments args, returning its result.
// callpos is the position of the callsite.
func call(i *interpreter, caller *frame, callpos token.Pos, fn value, args []value) value {
	switch fn := fn.(type) {
	case *ssa.Function:
		if fn == nil {
			panic("call of nil function") // nil of func type
		}
		return callSSA(i, caller, callpos, fn, args, nil)
	case *closure:
		return callSSA(i, caller, callpos, fn.Fn, args, fn.Env)
	case *ssa.Builtin:
		return callBuiltin(caller, callpos, fn, args)
	}
	panic(fmt.Sprintf("cannot call %T", fn))
}

func loc(fset *token.FileSet, pos token.Pos) string {
	if pos == token.NoPos {
		return ""
	}
	return " at " + fset.Position(pos).String()
}

// callSSA interprets a call to function fn with arguments args,
// and lexical environment env, returning its result.
// callpos is the position of the callsite.
func callSSA(i *interpreter, caller *frame, callpos token.Pos, fn *ssa.Function, args []value, env []value) value {
	if i.mode&EnableTracing != 0 {
		fset := fn.Prog.Fset
		// TODO(adonovan): fix: loc() lies for external functions.
		fmt.Fprintf(os.Stderr, "Entering %s%s.\n", fn, loc(fset, fn.Pos()))
		suffix := ""
		if caller != nil {
			suffix = ", resuming " + caller.fn.String() + loc(fset, callpos)
		}
		defer fmt.Fprintf(os.Stderr, "Leaving %s%s.\n", fn, suffix)
	}
	fr := &frame{
		i:      i,
		caller: caller, // for panic/recover
		fn:     fn,
	}
	info := i.program.info(fn)
	i.ps.funcs[info.name]++
	if info.override != nil && !i.inInit {
		return callSSA(i, caller, callpos, info.override, args, nil)
	}
	if info.ext != nil {
		if i.mode&EnableTracing != 0 {
			fmt.Fprintln(os.Stderr, "\t(external)")
		}
		if r := info.ext(fr, args); r != (fallThrough{}) {
			return r
		}
	}
	if info.pkgInit && caller != nil {
		return nil // dependencies are initialised lazily, on first use
	}
	if fn.Pkg != nil && !i.pkgInitDone[fn.Pkg] {
		i.ensureInit(fn.Pkg)
	}
	if fn.Blocks == nil {
		if i.inInit {
			return poisonResult(fn, "no code for "+info.name)
		}
		i.unsupported("no code for function %s", info.name)
	}
	i.callDepth++
	i.callStack = append(i.callStack, fn)
	if i.callDepth > i.limits.MaxCallDepth {
		i.abort(abortBound, "call depth exceeds %d (in %s)", i.limits.MaxCallDepth, info.name)
	}
	defer func() {
		i.callDepth--
		if n := len(i.callStack); n > 0 {
			i.callStack = i.callStack[:n-1]
		}
	}()

	// generic function body?
	if fn.TypeParams().Len() > 0 && len(fn.TypeArgs()) == 0 {
		panic("interp requires ssa.BuilderMode to include InstantiateGenerics to execute generics")
	}

	fr.env = make(map[ssa.Value]value)
	fr.tolerant = info.pkgInit
	fr.block = fn.Blocks[0]
	fr.locals = make([]value, len(fn.Locals))
	for i, l := range fn.Locals {
		fr.locals[i] = zero(mustDeref(l.Type()))
		fr.env[l] = &fr.locals[i]
	}
	for i, p := range fn.Params {
		fr.env[p] = args[i]
	}
	for i, fv := range fn.FreeVars {
		fr.env[fv] = env[i]
	}
	for fr.block != nil {
		runFrame(fr)
	}
	// Destroy the locals to avoid accidental use after return.
	for i := range fn.Locals {
		fr.locals[i] = bad{}
	}
	return fr.result
}

// runFrame executes SSA instructions starting at fr.block and
// continuing until a return, a panic, or a recovered panic.
//
// After a panic, runFrame panics.
//
// After a normal return, fr.result contains the result of the call
// and fr.block is nil.
//
// A recovered panic in a function without named return parameters
// (NRPs) becomes a normal return of the zero value of the function's
// result type.
//
// After a recovered panic in a function with NRPs, fr.result is
// undefined and fr.block contains the block at which to resume
// control.
func runFrame(fr *frame) {
	defer func() {
		if fr.block == nil {
			return // normal return
		}
		if fr.i.mode&DisableRecover != 0 {
			return // let interpreter crash
		}
		fr.panicking = true
		fr.panic = recover()
		if ea, ok := fr.panic.(engineAbort); ok {
			panic(ea) // engine-level abort: not visible to the target program
		}
		if dl, ok := fr.panic.(pathDeadlock); ok {
			panic(dl) // every goroutine is blocked for good: the program never gets to run its deferred calls
		}
		if fr.i.lastFaultVal == nil {
			fr.i.lastFaultVal = fr.panic
			fr.i.lastFault = fr.i.stackString()
		}
		if fr.i.mode&EnableTracing != 0 {
			fmt.Fprintf(os.Stderr, "Panicking: %T %v.\n", fr.panic, fr.panic)
		}
		fr.runDefers()
		fr.block = fr.fn.Recover
	}()

	for {
		if fr.i.mode&EnableTracing != 0 {
			fmt.Fprintf(os.Stderr, ".%s:\n", fr.block)
		}

		nonPhis := executePhis(fr)
		for _, instr := range nonPhis {
			if fr.i.mode&EnableTracing != 0 {
				if v, ok := instr.(ssa.Value); ok {
					fmt.Fprintln(os.Stderr, "\t", v.Name(), "=", instr)
				} else {
					fmt.Fprintln(os.Stderr, "\t", instr)
				}
			}
			fr.i.ps.steps++
			if fr.i.ps.steps > fr.i.limits.MaxSteps {
				fr.i.abort(abortBound, "more than %d instructions on one path (in %s)", fr.i.limits.MaxSteps, fr.fn)
			}
			if fr.tolerant {
				switch tolerantVisit(fr, instr) {
				case kReturn:
					return
				case kJump:
				}
				continue
			}
			if visitInstr(fr, instr) == kReturn {
				return
			}
			// Inv: kNext (continue) or kJump (last instr)
		}
	}
}

// executePhis executes the phi-nodes at the start of the current
// block and returns the non-phi instructions.
func executePhis(fr *frame) []ssa.Instruction {
	firstNonPhi := -1
	for i, instr := range fr.block.Instrs {
		if _, ok := instr.(*ssa.Phi); !ok {
			firstNonPhi = i
			break
		}
	}
	// Inv: 0 <= firstNonPhi; every block contains a non-phi.

	nonPhis := fr.block.Instrs[firstNonPhi:]
	if firstNonPhi > 0 {
		phis := fr.block.Instrs[:firstNonPhi]
		// Execute parallel assignment of phis.
		//
		// See "the swap problem" in Briggs et al's "Practical Improvements
		// to the Construction and Destruction of SSA Form" for discussion.
		predIndex := slices.Index(fr.block.Preds, fr.prevBlock)
		fr.phitemps = fr.phitemps[:0]
		for _, phi := range phis {
			phi := phi.(*ssa.Phi)
			if fr.i.mode&EnableTracing != 0 {
				fmt.Fprintln(os.Stderr, "\t", phi.Name(), "=", phi)
			}
			fr.phitemps = append(fr.phitemps, fr.get(phi.Edges[predIndex]))
		}
		for i, phi := range phis {
			fr.env[phi.(*ssa.Phi)] = fr.phitemps[i]
		}
	}
	return nonPhis
}

// doRecover implements the recover() built-in.
func doRecover(caller *frame) value {
	// recover() must be exactly one level beneath the deferred
	// function (two levels beneath the panicking function) to
	// have any effect.  Thus we ignore both "defer recover()" and
	// "defer f() -> g() -> recover()".
	if caller.i.mode&DisableRecover == 0 &&
		caller != nil && !caller.panicking &&
		caller.caller != nil && caller.caller.panicking {
		caller.caller.panicking = false
		p := caller.caller.panic
		caller.caller.panic = nil
		caller.i.lastFaultVal = nil

		// TODO(adonovan): support runtime.Goexit.
		switch p := p.(type) {
		case targetPanic:
			// The target program explicitly called panic().
			return p.v
		case runtime.Error:
			// The interpreter encountered a runtime error.
			return iface{caller.i.runtimeErrorString, p.Error()}
		case string:
			// The interpreter explicitly called panic().
			return iface{caller.i.runtimeErrorString, p}
		case runtimeErrorText:
			return iface{caller.i.runtimeErrorString, p.Error()}
		default:
			panic(fmt.Sprintf("unexpected panic type %T in target call to recover()", p))
		}
	}
	return iface{}
}


// tolerantVisit executes one instruction of a package initialiser; if it
// fails (unsupported construct, runtime fault, panic in a callee) the value it
// defines becomes poison and initialisation continues with the next one.
func tolerantVisit(fr *frame, instr ssa.Instruction) (k continuation) {
	defer func() {
		if r := recover(); r != nil {
			if ea, ok := r.(engineAbort); ok && ea.kind != abortUnsupported {
				panic(r)
			}
			if _, isIf := instr.(*ssa.If); isIf {
				panic(r) // cannot continue past an undecidable branch
			}
			why := fmt.Sprint(r)
			if ia, ok := r.(initAbort); ok {
				why = ia.why
			}
			if len(why) > 160 {
				why = why[:160]
			}
			if fr.i.cfg.Verbose {
				fmt.Fprintf(os.Stderr, "gosym: init of %s: %v failed (%s) [%s]\n", fr.fn.Pkg.Pkg.Path(), instr, why, fr.i.lastFault)
			}
			fr.i.lastFaultVal = nil
			if v, ok := instr.(ssa.Value); ok {
				fr.env[v] = poison{"initialiser failed in " + fr.fn.Pkg.Pkg.Path() + ": " + why}
			}
			k = kNext
		}
	}()
	return visitInstr(fr, instr)
}

// isLocalAlloc: the address is a stack slot of the current function (never shared).
func isLocalAlloc(v ssa.Value) bool {
	a, ok := v.(*ssa.Alloc)
	return ok && !a.Heap
}
