package interp

// Glue between the upstream concrete operators and the symbolic layer.

import (
	"fmt"
	"go/token"
	"go/types"
	"sort"
	"unicode/utf8"

	"golang.org/x/tools/go/ssa"
)

// poison marks a value that could not be computed during tolerant package
// initialisation. It only ever lives in package-level variables; reading one
// outside init aborts the path as unsupported.
type poison struct{ why string }

func isPoison(x value) bool { _, ok := x.(poison); return ok }

func poisonOf(xs ...value) poison {
	for _, x := range xs {
		if p, ok := x.(poison); ok {
			return p
		}
	}
	return poison{}
}

// truth resolves a (possibly symbolic) boolean, forking if needed.
func (i *interpreter) truth(c value) bool {
	switch c := c.(type) {
	case bool:
		return c
	case sym:
		return i.decide(c.t)
	case poison:
		panic(initAbort{"branch on a poisoned value: " + c.why})
	}
	panic(fmt.Sprintf("truth(%T)", c))
}

func truthOf(c value, xs ...value) bool {
	if b, ok := c.(bool); ok {
		return b
	}
	return ownerOf(c).truth(c)
}

// initAbort ends the initialiser of the current package (tolerant init).
type initAbort struct{ why string }

func (i *interpreter) loadChecked(T types.Type, addr *value) value {
	v := load(T, addr)
	if p, ok := v.(poison); ok && !i.inInit {
		i.unsupported("read of package-level variable that could not be initialised (%s)", p.why)
	}
	return v
}

func (i *interpreter) sliceOp(x, lo, hi, max value) value {
	if isPoison(x) {
		return x
	}
	var Len, Cap int
	switch x := x.(type) {
	case string:
		Len = len(x)
		Cap = Len
	case sstr:
		Len = len(x.b)
		Cap = Len
	case []value:
		Len = len(x)
		Cap = cap(x)
	case *value:
		if x == nil {
			panic(runtimeErrorText("slice of nil array pointer"))
		}
		a := (*x).(array)
		Len = len(a)
		Cap = cap(a)
	}
	// symbolic bounds: fork the out-of-range case, concretise the rest
	bound := func(v value, upper int, what string) value {
		if v == nil {
			return nil
		}
		if _, ok := v.(sym); ok {
			return i.symIndex(v, upper+1, what)
		}
		return v
	}
	hi = bound(hi, Cap, "slice high bound")
	lo = bound(lo, Cap, "slice low bound")
	max = bound(max, Cap, "slice max bound")
	if s, ok := x.(sstr); ok {
		l, h := int64(0), int64(Len)
		if lo != nil {
			l = asInt64(lo)
		}
		if hi != nil {
			h = asInt64(hi)
		}
		return mkStr(s.b[l:h])
	}
	return slice(x, lo, hi, max)
}

func (i *interpreter) indexOp(x, idx value) value {
	switch x := x.(type) {
	case array:
		if s, ok := idx.(sym); ok {
			if len(x) > 0 && len(x) <= 64 {
				if k := kindOfValue(x[0]); k != types.Invalid && k != types.String && allScalars(x) {
					return i.selectElem(x, s, elemKind(x))
				}
			}
			return x[i.symIndex(idx, len(x), "array index")]
		}
		return x[asInt64(idx)]
	case string:
		if s, ok := idx.(sym); ok {
			if len(x) > 0 && len(x) <= 256 {
				return i.selectElem(strBytes(x), s, types.Uint8)
			}
			return x[i.symIndex(idx, len(x), "string index")]
		}
		return x[asInt64(idx)]
	case sstr:
		if s, ok := idx.(sym); ok {
			if len(x.b) > 0 {
				return i.selectElem(x.b, s, types.Uint8)
			}
			return x.b[i.symIndex(idx, len(x.b), "string index")]
		}
		return x.b[asInt64(idx)]
	case poison:
		return x
	}
	panic(fmt.Sprintf("unexpected x type in Index: %T", x))
}

func allScalars(a []value) bool {
	k := types.Invalid
	for _, e := range a {
		ek := kindOfValue(e)
		if ek == types.Invalid || ek == types.String {
			return false
		}
		if k == types.Invalid {
			k = ek
		} else if k != ek {
			return false
		}
	}
	return true
}

func elemKind(a []value) types.BasicKind { return kindOfValue(a[0]) }

func (i *interpreter) rangeIter(x value, t types.Type) iter {
	switch x := x.(type) {
	case sstr:
		return &sstrIter{i: i, b: x.b}
	case map[value]value:
		return newOrderedMapIter(x)
	case *hashmap:
		return newOrderedHashmapIter(x)
	}
	return rangeIter(x, t)
}

// concreteKey turns a symbolic map key into a concrete one by forking.
func (i *interpreter) concreteKey(k value) value {
	switch k := k.(type) {
	case sym:
		return i.concretizeInt(k, "map key")
	case sstr:
		return i.concretizeStr(k, "map key")
	case iface:
		switch k.v.(type) {
		case sym, sstr:
			return iface{k.t, i.concreteKey(k.v)}
		}
	}
	return k
}

func (i *interpreter) lookupOp(instr *ssa.Lookup, x, idx value) value {
	if isPoison(x) {
		if i.inInit {
			return x
		}
		i.unsupported("lookup in a poisoned map")
	}
	return lookup(instr, x, i.concreteKey(idx))
}

// ---- deterministic map iteration (re-execution must be reproducible) ----

type sliceIter struct {
	items []tuple
	pos   int
}

func (it *sliceIter) next() tuple {
	if it.pos >= len(it.items) {
		return []value{false, nil, nil}
	}
	t := it.items[it.pos]
	it.pos++
	return t
}

func keyOrder(k value) string {
	switch k := k.(type) {
	case string:
		return "s" + k
	case bool, int, int8, int16, int32, int64, uint, uint8, uint16, uint32, uint64, uintptr, float32, float64:
		return fmt.Sprintf("n%020v", k)
	case iface:
		return "i" + fmt.Sprint(k.t) + keyOrder(k.v)
	case structure:
		s := "{"
		for _, e := range k {
			s += keyOrder(e) + ","
		}
		return s
	case array:
		s := "["
		for _, e := range k {
			s += keyOrder(e) + ","
		}
		return s
	}
	return fmt.Sprintf("p%p", k)
}

func newOrderedMapIter(m map[value]value) iter {
	items := make([]tuple, 0, len(m))
	for k, v := range m {
		items = append(items, tuple{true, k, v})
	}
	sort.Slice(items, func(a, b int) bool { return keyOrder(items[a][1]) < keyOrder(items[b][1]) })
	return &sliceIter{items: items}
}

func newOrderedHashmapIter(m *hashmap) iter {
	var items []tuple
	for _, e := range m.entries() {
		for ; e != nil; e = e.next {
			items = append(items, tuple{true, e.key, e.value})
		}
	}
	sort.Slice(items, func(a, b int) bool { return keyOrder(items[a][1]) < keyOrder(items[b][1]) })
	return &sliceIter{items: items}
}

// symConvHook handles conversions that involve symbolic scalars or strings.
func symConvHook(utDst, utSrc types.Type, x value) (value, bool) {
	switch xv := x.(type) {
	case sym:
		i := xv.t.tt.owner
		if b, ok := utDst.(*types.Basic); ok {
			if b.Kind() == types.String {
				// string(rune)
				return mkStr(i.encodeRune(xv)), true
			}
			return i.symConv(basicKind(b), xv), true
		}
	case sstr:
		switch d := utDst.(type) {
		case *types.Basic:
			if d.Kind() == types.String {
				return xv, true
			}
		case *types.Slice:
			switch d.Elem().Underlying().(*types.Basic).Kind() {
			case types.Byte:
				r := make([]value, len(xv.b))
				copy(r, xv.b)
				return r, true
			case types.Rune:
				i := ownerOf(xv)
				var r []value
				for p := 0; p < len(xv.b); {
					rv, n := i.decodeRune(xv.b[p:])
					r = append(r, rv)
					p += n
				}
				return r, true
			}
		}
	case []value:
		// []byte / []rune with symbolic elements -> string
		if s, ok := utSrc.(*types.Slice); ok {
			if b, ok := s.Elem().Underlying().(*types.Basic); ok {
				if d, ok := utDst.(*types.Basic); ok && d.Kind() == types.String {
					hasSym := false
					for _, e := range xv {
						if _, ok := e.(sym); ok {
							hasSym = true
							break
						}
					}
					if !hasSym {
						return nil, false
					}
					switch b.Kind() {
					case types.Byte:
						return mkStr(xv), true
					case types.Rune:
						i := ownerOf(sstr{xv})
						var r []value
						for _, e := range xv {
							r = append(r, i.encodeRune(e)...)
						}
						return mkStr(r), true
					}
				}
			}
		}
	}
	return nil, false
}

var _ = utf8.RuneError

// symRef stands for &elems[idx] with a symbolic idx when its only use is a load.
type symRef struct {
	elems []value
	idx   sym
}

// fallThrough is returned by an intrinsic that declines a call: the real
// body is interpreted instead.
type fallThrough struct{}

// symDecimal is the decimal text of a symbolic integer (verif.Itoa): an
// opaque string that only strconv.ParseInt/Atoi can read back.
type symDecimal struct {
	s sym
}

// symDecimalBinop: the only comparisons defined on the opaque decimal text of a
// symbolic integer are against the empty string (it is never empty).
func symDecimalBinop(op token.Token, x, y value) (value, bool) {
	_, dx := x.(symDecimal)
	_, dy := y.(symDecimal)
	if !dx && !dy {
		return nil, false
	}
	other := y
	if dy {
		other = x
	}
	if s, ok := other.(string); ok && s == "" {
		switch op {
		case token.EQL:
			return false, true
		case token.NEQ:
			return true, true
		}
	}
	panic(engineAbort{kind: abortUnsupported, msg: "operation " + op.String() + " on the decimal text of a symbolic integer"})
}
