package interp

import (
	"fmt"
	"go/types"
)

// mustDeref returns the element type of a pointer type (replacement for
// x/tools/internal/typeparams.MustDeref).
func mustDeref(t types.Type) types.Type {
	if p, ok := t.Underlying().(*types.Pointer); ok {
		return p.Elem()
	}
	if p, ok := types.Unalias(t).(*types.Pointer); ok {
		return p.Elem()
	}
	panic(fmt.Sprintf("%v is not a pointer", t))
}
