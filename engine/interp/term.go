package interp

// SMT terms: a hash-consed DAG of bit-vector, IEEE float and boolean
// expressions, printed as SMT-LIB2 with one define-fun per node.

import (
	"fmt"
	"math"
	"math/big"
	"strings"
)

type sortKind uint8

const (
	sBool sortKind = iota
	sBV
	sFP
)

type tsort struct {
	k sortKind
	w int // BV width, or 32/64 for FP
}

func (s tsort) smt() string {
	switch s.k {
	case sBool:
		return "Bool"
	case sBV:
		return fmt.Sprintf("(_ BitVec %d)", s.w)
	case sFP:
		if s.w == 32 {
			return "(_ FloatingPoint 8 24)"
		}
		return "(_ FloatingPoint 11 53)"
	}
	panic("bad sort")
}

var (
	boolSort = tsort{sBool, 0}
)

func bvSort(w int) tsort { return tsort{sBV, w} }
func fpSort(w int) tsort { return tsort{sFP, w} }

type term struct {
	tt   *termTable
	id   int
	op   string // SMT operator, or "var", "const"
	args []*term
	sort tsort
	p1   int    // extract hi / extend amount / ...
	p2   int    // extract lo
	name string // for vars
	// constants
	isConst bool
	cv      uint64 // BV value (w<=64), bool (0/1), FP bits
}

// termTable hash-conses terms for one path.
type termTable struct {
	tab   map[string]*term
	next  int
	owner *interpreter
}

func newTermTable() *termTable { return &termTable{tab: make(map[string]*term)} }

func (tt *termTable) intern(t *term) *term {
	var sb strings.Builder
	sb.WriteString(t.op)
	sb.WriteByte('|')
	sb.WriteString(t.name)
	fmt.Fprintf(&sb, "|%d|%d|%d|%d|%d|%v", t.sort.k, t.sort.w, t.p1, t.p2, t.cv, t.isConst)
	for _, a := range t.args {
		fmt.Fprintf(&sb, ",%d", a.id)
	}
	k := sb.String()
	if e, ok := tt.tab[k]; ok {
		return e
	}
	tt.next++
	t.id = tt.next
	t.tt = tt
	tt.tab[k] = t
	return t
}

func (tt *termTable) mkVar(name string, s tsort) *term {
	return tt.intern(&term{op: "var", name: name, sort: s})
}

func (tt *termTable) mkBool(b bool) *term {
	v := uint64(0)
	if b {
		v = 1
	}
	return tt.intern(&term{op: "const", sort: boolSort, isConst: true, cv: v})
}

func maskW(v uint64, w int) uint64 {
	if w >= 64 {
		return v
	}
	return v & (uint64(1)<<uint(w) - 1)
}

func (tt *termTable) mkBV(v uint64, w int) *term {
	return tt.intern(&term{op: "const", sort: bvSort(w), isConst: true, cv: maskW(v, w)})
}

func (tt *termTable) mkFP(bits uint64, w int) *term {
	return tt.intern(&term{op: "const", sort: fpSort(w), isConst: true, cv: bits})
}

func (tt *termTable) mk(op string, s tsort, args ...*term) *term {
	return tt.intern(&term{op: op, sort: s, args: args})
}

func (tt *termTable) mkP(op string, s tsort, p1, p2 int, args ...*term) *term {
	return tt.intern(&term{op: op, sort: s, p1: p1, p2: p2, args: args})
}

// Boolean helpers with light simplification.

func (tt *termTable) not(a *term) *term {
	if a.isConst {
		return tt.mkBool(a.cv == 0)
	}
	if a.op == "not" {
		return a.args[0]
	}
	return tt.mk("not", boolSort, a)
}

func (tt *termTable) and(a, b *term) *term {
	if a.isConst {
		if a.cv == 0 {
			return a
		}
		return b
	}
	if b.isConst {
		if b.cv == 0 {
			return b
		}
		return a
	}
	if a == b {
		return a
	}
	return tt.mk("and", boolSort, a, b)
}

func (tt *termTable) or(a, b *term) *term {
	if a.isConst {
		if a.cv != 0 {
			return a
		}
		return b
	}
	if b.isConst {
		if b.cv != 0 {
			return b
		}
		return a
	}
	if a == b {
		return a
	}
	return tt.mk("or", boolSort, a, b)
}

func (tt *termTable) eq(a, b *term) *term {
	if a == b {
		return tt.mkBool(true)
	}
	if a.isConst && b.isConst && a.sort.k != sFP {
		return tt.mkBool(a.cv == b.cv)
	}
	if a.sort.k == sFP {
		return tt.mk("fp.eq", boolSort, a, b)
	}
	return tt.mk("=", boolSort, a, b)
}

func (tt *termTable) ite(c, a, b *term) *term {
	if c.isConst {
		if c.cv != 0 {
			return a
		}
		return b
	}
	if a == b {
		return a
	}
	return tt.mk("ite", a.sort, c, a, b)
}

// emit writes the SMT-LIB2 text naming node t (and, first, its not yet
// emitted descendants) and returns the name to use for t.
func (t *term) ref() string {
	if t.isConst {
		return t.constText()
	}
	if t.op == "var" {
		return t.name
	}
	return fmt.Sprintf("t%d", t.id)
}

func (t *term) constText() string {
	switch t.sort.k {
	case sBool:
		if t.cv != 0 {
			return "true"
		}
		return "false"
	case sBV:
		if t.sort.w%4 == 0 {
			return fmt.Sprintf("#x%0*x", t.sort.w/4, t.cv)
		}
		return fmt.Sprintf("#b%0*b", t.sort.w, t.cv)
	case sFP:
		if t.sort.w == 32 {
			b := uint32(t.cv)
			return fmt.Sprintf("(fp #b%01b #b%08b #b%023b)", b>>31, (b>>23)&0xff, b&0x7fffff)
		}
		b := t.cv
		return fmt.Sprintf("(fp #b%01b #b%011b #b%052b)", b>>63, (b>>52)&0x7ff, b&(1<<52-1))
	}
	panic("bad const")
}

func (t *term) opText() string {
	switch t.op {
	case "extract":
		return fmt.Sprintf("(_ extract %d %d)", t.p1, t.p2)
	case "sign_extend", "zero_extend":
		return fmt.Sprintf("(_ %s %d)", t.op, t.p1)
	case "to_fp_s", "to_fp_f": // signed int / float -> fp, RNE
		if t.sort.w == 32 {
			return "(_ to_fp 8 24) RNE"
		}
		return "(_ to_fp 11 53) RNE"
	case "to_fp_u":
		if t.sort.w == 32 {
			return "(_ to_fp_unsigned 8 24) RNE"
		}
		return "(_ to_fp_unsigned 11 53) RNE"
	case "to_fp_bits": // reinterpret BV as FP
		if t.sort.w == 32 {
			return "(_ to_fp 8 24)"
		}
		return "(_ to_fp 11 53)"
	case "fp.to_sbv":
		return fmt.Sprintf("(_ fp.to_sbv %d) RTZ", t.sort.w)
	case "fp.to_ubv":
		return fmt.Sprintf("(_ fp.to_ubv %d) RTZ", t.sort.w)
	case "fp.add", "fp.sub", "fp.mul", "fp.div":
		return t.op + " RNE"
	case "fp.rti_rtz":
		return "fp.roundToIntegral RTZ"
	}
	return t.op
}

func (t *term) defText() string {
	var sb strings.Builder
	fmt.Fprintf(&sb, "(define-fun t%d () %s (%s", t.id, t.sort.smt(), t.opText())
	for _, a := range t.args {
		sb.WriteByte(' ')
		sb.WriteString(a.ref())
	}
	sb.WriteString("))")
	return sb.String()
}

// String renders the term as a (possibly large) tree, for samples in evidence.
func (t *term) String() string {
	return t.str(0)
}

func (t *term) str(depth int) string {
	if t.isConst || t.op == "var" {
		return t.ref()
	}
	if depth > 6 {
		return "…"
	}
	var sb strings.Builder
	sb.WriteByte('(')
	sb.WriteString(t.opText())
	for _, a := range t.args {
		sb.WriteByte(' ')
		sb.WriteString(a.str(depth + 1))
	}
	sb.WriteByte(')')
	return sb.String()
}

// ---- model values ----

// parseModelValue parses a solver value (as printed by z3 get-value) of sort s
// into its bit pattern.
func parseModelValue(txt string, s tsort) (uint64, error) {
	txt = strings.TrimSpace(txt)
	switch s.k {
	case sBool:
		switch txt {
		case "true":
			return 1, nil
		case "false":
			return 0, nil
		}
	case sBV:
		return parseBVLit(txt)
	case sFP:
		eb, sbits := 11, 52
		if s.w == 32 {
			eb, sbits = 8, 23
		}
		if strings.HasPrefix(txt, "(fp ") {
			f := strings.Fields(strings.Trim(txt, "()"))
			if len(f) != 4 {
				break
			}
			sg, e1 := parseBVLit(f[1])
			ex, e2 := parseBVLit(f[2])
			mt, e3 := parseBVLit(f[3])
			if e1 != nil || e2 != nil || e3 != nil {
				break
			}
			return sg<<uint(eb+sbits) | ex<<uint(sbits) | mt, nil
		}
		if strings.HasPrefix(txt, "(_ ") {
			f := strings.Fields(strings.Trim(txt, "()"))
			expAll := (uint64(1)<<uint(eb) - 1) << uint(sbits)
			switch f[1] {
			case "+zero":
				return 0, nil
			case "-zero":
				return 1 << uint(eb+sbits), nil
			case "+oo":
				return expAll, nil
			case "-oo":
				return expAll | 1<<uint(eb+sbits), nil
			case "NaN":
				return expAll | 1<<uint(sbits-1), nil
			}
		}
	}
	return 0, fmt.Errorf("cannot parse model value %q of sort %s", txt, s.smt())
}

func parseBVLit(txt string) (uint64, error) {
	if strings.HasPrefix(txt, "#x") {
		n, ok := new(big.Int).SetString(txt[2:], 16)
		if !ok {
			return 0, fmt.Errorf("bad hex %q", txt)
		}
		return n.Uint64(), nil
	}
	if strings.HasPrefix(txt, "#b") {
		n, ok := new(big.Int).SetString(txt[2:], 2)
		if !ok {
			return 0, fmt.Errorf("bad bin %q", txt)
		}
		return n.Uint64(), nil
	}
	if strings.HasPrefix(txt, "(_ bv") {
		f := strings.Fields(strings.Trim(txt, "()"))
		n, ok := new(big.Int).SetString(strings.TrimPrefix(f[1], "bv"), 10)
		if !ok {
			return 0, fmt.Errorf("bad bv %q", txt)
		}
		return n.Uint64(), nil
	}
	return 0, fmt.Errorf("bad bv literal %q", txt)
}

func f64bits(f float64) uint64 { return math.Float64bits(f) }
func f32bits(f float32) uint64 { return uint64(math.Float32bits(f)) }
