package interp

// Engine-native models of stdlib / runtime pieces whose real bodies are
// assembly, unsafe, linkname or reflection.

import (
	"fmt"
	"go/token"
	"go/types"
	"math"
	"os"
	"strings"
	"unsafe"

	"golang.org/x/tools/go/ssa"
)

func init() {
	// upstream externals that assume concrete Go strings: replaced below or
	// dropped so that the real (pure Go) source is interpreted instead.
	for _, k := range []string{"strconv.Atoi", "strconv.Itoa", "strings.Replace", "strings.ToLower", "strings.EqualFold",
		"fmt.Sprint", "time.Sleep", "sort.Ints", "sort.Strings", "sort.Float64s", "math.Min", "math.Abs", "math.Copysign",
		"strconv.FormatFloat", "runtime.Goexit", "bytes.Equal", "bytes.IndexByte", "strings.Count", "strings.Index", "strings.IndexByte",
		"unicode/utf8.DecodeRuneInString"} {
		delete(externals, k)
	}
	for k, v := range map[string]externalFn{
		// --- byte/string search primitives (asm in the real stdlib) ---
		"internal/bytealg.IndexByte":        extIndexByte,
		"internal/bytealg.IndexByteString":  extIndexByte,
		"internal/bytealg.Index":            extIndex,
		"internal/bytealg.IndexString":      extIndex,
		"internal/bytealg.Count":            extCountByte,
		"internal/bytealg.CountString":      extCountByte,
		"internal/bytealg.Equal":            extBytesEqual,
		"internal/bytealg.Compare":          extCompare,
		"internal/bytealg.CompareString":    extCompare,
		"internal/bytealg.LastIndexByte":       extLastIndexByte,
		"internal/bytealg.LastIndexByteString": extLastIndexByte,
		"internal/bytealg.MakeNoZero":       func(fr *frame, args []value) value { return makeByteSlice(int(asInt64(args[0]))) },
		"internal/bytealg.Cutover":          func(fr *frame, args []value) value { return int(1 << 30) },
		"internal/stringslite.Index":        extIndex,
		"internal/stringslite.IndexByte":    extIndexByte,
		"strings.Index":                     extIndex,
		"strings.IndexByte":                 extIndexByte,
		"strings.LastIndex":                 extLastIndex,
		"strings.Count":                     extCount,
		"bytes.Index":                       extIndex,
		"bytes.IndexByte":                   extIndexByte,
		"bytes.LastIndex":                   extLastIndex,
		"bytes.Equal":                       extBytesEqual,
		"bytes.Compare":                     extCompare,
		"bytes.Count":                       extCount,
		"strings.Compare":                   extCompare,
		"strings.Clone":                     func(fr *frame, args []value) value { return args[0] },
		"unique.Make[string]":               nil,
		"unicode/utf8.DecodeRuneInString":   extDecodeRune,
		"unicode/utf8.DecodeRune":           extDecodeRune,
		"internal/abi.NoEscape":             func(fr *frame, args []value) value { return args[0] },
		"internal/abi.Escape":               func(fr *frame, args []value) value { return args[0] },
		"internal/abi.FuncPCABIInternal":    func(fr *frame, args []value) value { return uintptr(0) },
		"internal/abi.FuncPCABI0":           func(fr *frame, args []value) value { return uintptr(0) },

		// --- strings.Builder ---
		"(*strings.Builder).String":      extBuilderString,
		"(*strings.Builder).Len":         func(fr *frame, args []value) value { return len(builderBuf(args[0])) },
		"(*strings.Builder).Cap":         func(fr *frame, args []value) value { return cap(builderBuf(args[0])) },
		"(*strings.Builder).Reset":       func(fr *frame, args []value) value { setBuilderBuf(args[0], nil); return nil },
		"(*strings.Builder).Grow":        func(fr *frame, args []value) value { return nil },
		"(*strings.Builder).grow":        func(fr *frame, args []value) value { return nil },
		"(*strings.Builder).copyCheck":   func(fr *frame, args []value) value { return nil },
		"(*strings.Builder).Write":       extBuilderWrite,
		"(*strings.Builder).WriteString": extBuilderWrite,
		"(*strings.Builder).WriteByte": func(fr *frame, args []value) value {
			setBuilderBuf(args[0], append(builderBuf(args[0]), args[1]))
			return iface{}
		},
		"(*strings.Builder).WriteRune": func(fr *frame, args []value) value {
			b := fr.i.encodeRune(args[1])
			setBuilderBuf(args[0], append(builderBuf(args[0]), b...))
			return tuple{len(b), iface{}}
		},

		// --- unsafe string/slice helpers ---
		"unsafe.String":     nil,
		"unsafe.StringData": nil,

		// --- sync ---
		"(*sync.Mutex).Lock":              extMutexLock,
		"(*sync.Mutex).Unlock":            extMutexUnlock,
		"(*sync.Mutex).TryLock":           extMutexTryLock,
		"(*internal/sync.Mutex).Lock":     extMutexLock,
		"(*internal/sync.Mutex).Unlock":   extMutexUnlock,
		"(*internal/sync.Mutex).TryLock":  extMutexTryLock,
		"(*sync.RWMutex).Lock":            extMutexLock,
		"(*sync.RWMutex).Unlock":          extMutexUnlock,
		"(*sync.RWMutex).TryLock":         extMutexTryLock,
		"(*sync.RWMutex).RLock":           extRLock,
		"(*sync.RWMutex).RUnlock":         extRUnlock,
		"(*sync.RWMutex).TryRLock":        extTryRLock,
		"(*sync.Once).Do":                 extOnceDo,
		"(*github.com/sasha-s/go-deadlock.Mutex).Lock":      extMutexLock,
		"(*github.com/sasha-s/go-deadlock.Mutex).Unlock":    extMutexUnlock,
		"(*github.com/sasha-s/go-deadlock.RWMutex).Lock":    extMutexLock,
		"(*github.com/sasha-s/go-deadlock.RWMutex).Unlock":  extMutexUnlock,
		"(*github.com/sasha-s/go-deadlock.RWMutex).RLock":   extRLock,
		"(*github.com/sasha-s/go-deadlock.RWMutex).RUnlock": extRUnlock,
		"(*sync.Once).doSlow":             nil,
		"(*sync.Pool).Get":                extPoolGet,
		"(*sync.Pool).Put":                func(fr *frame, args []value) value { return nil },
		"(*sync.WaitGroup).Add":           extWGAdd,
		"(*sync.WaitGroup).Done":          func(fr *frame, args []value) value { return extWGAdd(fr, []value{args[0], int(-1)}) },
		"(*sync.WaitGroup).Wait":          extWGWait,
		"(*sync.Cond).Wait":               nil,
		"runtime.Gosched":                 func(fr *frame, args []value) value { fr.i.yield("Gosched"); return nil },
		"runtime.KeepAlive":               func(fr *frame, args []value) value { return nil },
		"runtime.SetFinalizer":            func(fr *frame, args []value) value { return nil },
		"runtime.GC":                      func(fr *frame, args []value) value { return nil },
		"runtime.NumGoroutine":            func(fr *frame, args []value) value { return 1 },
		"runtime.Caller":                  func(fr *frame, args []value) value { return tuple{uintptr(0), "", 0, false} },
		"runtime.Callers":                 func(fr *frame, args []value) value { return 0 },
		"runtime.Stack":                   func(fr *frame, args []value) value { return 0 },
		"runtime/debug.Stack":             func(fr *frame, args []value) value { return []value(nil) },
		"runtime/debug.SetPanicOnFault":   func(fr *frame, args []value) value { return false },
		"runtime.GOMAXPROCS":              func(fr *frame, args []value) value { return 16 },
		"runtime.NumCPU":                  func(fr *frame, args []value) value { return 16 },
		"os.Getenv":                       func(fr *frame, args []value) value { return "" },
		"os.LookupEnv":                    func(fr *frame, args []value) value { return tuple{"", false} },
		"os.NewFile":                      func(fr *frame, args []value) value { return (*value)(nil) },
		"os.Getpid":                       func(fr *frame, args []value) value { return 4242 },
		"os.Getpagesize":                  func(fr *frame, args []value) value { return 4096 },
		"syscall.Getpagesize":             func(fr *frame, args []value) value { return 4096 },
		"syscall.runtime_envs":            func(fr *frame, args []value) value { return []value(nil) },
		"os.runtime_args":                 func(fr *frame, args []value) value { return []value{"gosym"} },
		"internal/godebug.New":            nil,
		"(*internal/godebug.Setting).Value": func(fr *frame, args []value) value { return "" },
		"(*internal/godebug.Setting).IncNonDefault": func(fr *frame, args []value) value { return nil },
		"internal/race.Enable":            func(fr *frame, args []value) value { return nil },
		"internal/race.Disable":           func(fr *frame, args []value) value { return nil },
		"internal/race.Acquire":           func(fr *frame, args []value) value { return nil },
		"internal/race.Release":           func(fr *frame, args []value) value { return nil },
		"internal/race.ReleaseMerge":      func(fr *frame, args []value) value { return nil },
		"internal/race.Read":              func(fr *frame, args []value) value { return nil },
		"internal/race.Write":             func(fr *frame, args []value) value { return nil },
		"internal/race.ReadRange":         func(fr *frame, args []value) value { return nil },
		"internal/race.WriteRange":        func(fr *frame, args []value) value { return nil },

		"strconv.ParseInt": func(fr *frame, args []value) value {
			if d, ok := args[0].(symDecimal); ok {
				if asInt64(args[1]) == 10 && asInt64(args[2]) == 64 {
					return tuple{sym{fr.i.ps.tt.resizeBV(d.s.t, kindSigned(d.s.k), 64), types.Int64}, iface{}}
				}
				fr.i.unsupported("strconv.ParseInt of a symbolic decimal with base/bitSize other than 10/64")
			}
			return fallThrough{}
		},
		"strconv.Atoi": func(fr *frame, args []value) value {
			if d, ok := args[0].(symDecimal); ok {
				return tuple{sym{fr.i.ps.tt.resizeBV(d.s.t, kindSigned(d.s.k), 64), types.Int}, iface{}}
			}
			return fallThrough{}
		},

		// deterministic stand-ins for the runtime's random source (listed as stubs in evidence)
		"math/rand.runtime_rand":    func(fr *frame, args []value) value { return uint64(0) },
		"math/rand/v2.runtime_rand": func(fr *frame, args []value) value { return uint64(0) },
		"hash/maphash.runtime_rand": func(fr *frame, args []value) value { return uint64(0x9e3779b97f4a7c15) },
		"os.runtime_rand":           func(fr *frame, args []value) value { return uint64(0) },
		"internal/poll.runtime_rand": func(fr *frame, args []value) value { return uint64(0) },

		// --- math ---
		"math.Float64bits":     extFloat64bits,
		"math.Float64frombits": extFloat64frombits,
		"math.Float32bits":     extFloat32bits,
		"math.Float32frombits": extFloat32frombits,
		"math.IsNaN":           extIsNaN,
		"math.IsInf":           extIsInf,
		"math.Pow":             extPow,
		"math.Abs":             extAbs,
		"math.Floor":           extMathNative1(math.Floor),
		"math.Ceil":            extMathNative1(math.Ceil),
		"math.Trunc":           extMathNative1(math.Trunc),
		"math.Log2":            extMathNative1(math.Log2),
		"math.Log10":           extMathNative1(math.Log10),
		"math.Exp2":            extMathNative1(math.Exp2),
		"math.archFloor":       extMathNative1(math.Floor),
		"math.archCeil":        extMathNative1(math.Ceil),
		"math.archTrunc":       extMathNative1(math.Trunc),
		"math.archSqrt":        extMathNative1(math.Sqrt),
		"math/bits.Len64":      nil,
	} {
		if v == nil {
			continue
		}
		externals[k] = v
	}
}

func makeByteSlice(n int) []value {
	r := make([]value, n)
	for k := range r {
		r[k] = uint8(0)
	}
	return r
}

// seqBytes views a string or []byte argument as a byte sequence.
func seqBytes(x value) []value {
	switch x := x.(type) {
	case []value:
		return x
	case string, sstr:
		return strBytes(x)
	}
	panic(fmt.Sprintf("seqBytes(%T)", x))
}

func hasSymBytes(b []value) bool {
	for _, e := range b {
		if _, ok := e.(sym); ok {
			return true
		}
	}
	return false
}

func concreteBytes(b []value) []byte {
	r := make([]byte, len(b))
	for k, e := range b {
		r[k] = e.(uint8)
	}
	return r
}

// indexOf returns the first index of needle in hay, forking on symbolic bytes.
func (i *interpreter) indexOf(hay, needle []value) int {
	n, m := len(hay), len(needle)
	if m == 0 {
		return 0
	}
	if !hasSymBytes(hay) && !hasSymBytes(needle) {
		return strings.Index(string(concreteBytes(hay)), string(concreteBytes(needle)))
	}
	for p := 0; p+m <= n; p++ {
		if i.decide(i.bytesEqTerm(hay[p:p+m], needle)) {
			return p
		}
	}
	return -1
}

func (i *interpreter) lastIndexOf(hay, needle []value) int {
	n, m := len(hay), len(needle)
	if m == 0 {
		return n
	}
	for p := n - m; p >= 0; p-- {
		if i.decide(i.bytesEqTerm(hay[p:p+m], needle)) {
			return p
		}
	}
	return -1
}

func extIndex(fr *frame, args []value) value {
	return fr.i.indexOf(seqBytes(args[0]), seqBytes(args[1]))
}
func extLastIndex(fr *frame, args []value) value {
	return fr.i.lastIndexOf(seqBytes(args[0]), seqBytes(args[1]))
}
func extIndexByte(fr *frame, args []value) value {
	return fr.i.indexOf(seqBytes(args[0]), []value{args[1]})
}
func extLastIndexByte(fr *frame, args []value) value {
	return fr.i.lastIndexOf(seqBytes(args[0]), []value{args[1]})
}

func extCountByte(fr *frame, args []value) value {
	n := 0
	for _, e := range seqBytes(args[0]) {
		if fr.i.decide(fr.i.bytesEqTerm([]value{e}, []value{args[1]})) {
			n++
		}
	}
	return n
}

// strings.Count / bytes.Count (non-overlapping; empty separator counts runes+1)
func extCount(fr *frame, args []value) value {
	hay, sep := seqBytes(args[0]), seqBytes(args[1])
	if len(sep) == 0 {
		// utf8.RuneCount + 1
		n := 0
		for p := 0; p < len(hay); {
			_, sz := fr.i.decodeRune(hay[p:])
			p += sz
			n++
		}
		return n + 1
	}
	n := 0
	for {
		k := fr.i.indexOf(hay, sep)
		if k < 0 {
			return n
		}
		n++
		hay = hay[k+len(sep):]
	}
}

func extBytesEqual(fr *frame, args []value) value {
	a, b := seqBytes(args[0]), seqBytes(args[1])
	if len(a) != len(b) {
		return false
	}
	return mkSym(fr.i.bytesEqTerm(a, b), types.Bool)
}

func extCompare(fr *frame, args []value) value {
	a, b := seqBytes(args[0]), seqBytes(args[1])
	i := fr.i
	if len(a) == len(b) && i.decide(i.bytesEqTerm(a, b)) {
		return 0
	}
	if i.decide(i.bytesLtTerm(a, b)) {
		return -1
	}
	return 1
}

func extDecodeRune(fr *frame, args []value) value {
	b := seqBytes(args[0])
	if len(b) == 0 {
		return tuple{int32(0xFFFD), 0}
	}
	r, n := fr.i.decodeRune(b)
	return tuple{r, n}
}

// ---- strings.Builder ----

func builderBuf(recv value) []value {
	st := (*recv.(*value)).(structure)
	b, _ := st[1].([]value)
	return b
}
func setBuilderBuf(recv value, b []value) {
	st := (*recv.(*value)).(structure)
	st[1] = b
}
func extBuilderString(fr *frame, args []value) value {
	return mkStr(builderBuf(args[0]))
}
func extBuilderWrite(fr *frame, args []value) value {
	b := seqBytes(args[1])
	// append is a read-modify-write of the buffer header: not atomic. In schedule
	// exploration another goroutine may run between the read and the write (this is
	// what makes unsynchronised concurrent writers lose data, as they do natively).
	old := builderBuf(args[0])
	fr.i.yield("mem")
	setBuilderBuf(args[0], append(old[:len(old):len(old)], b...))
	return tuple{len(b), iface{}}
}

// ---- sync ----

type lockState struct {
	writer  bool
	readers int
	owner   int
}

func (i *interpreter) lockFor(p value) *lockState {
	key := p.(*value)
	if i.locks == nil {
		i.locks = map[*value]*lockState{}
	}
	ls := i.locks[key]
	if ls == nil {
		ls = &lockState{}
		i.locks[key] = ls
	}
	return ls
}

func extMutexLock(fr *frame, args []value) value {
	i := fr.i
	ls := i.lockFor(args[0])
	i.yield("Lock")
	i.block("mutex Lock", func() bool { return !ls.writer && ls.readers == 0 })
	ls.writer = true
	return nil
}
func extMutexTryLock(fr *frame, args []value) value {
	i := fr.i
	ls := i.lockFor(args[0])
	i.yield("TryLock")
	if ls.writer || ls.readers > 0 {
		return false
	}
	ls.writer = true
	return true
}
func extMutexUnlock(fr *frame, args []value) value {
	i := fr.i
	ls := i.lockFor(args[0])
	if !ls.writer {
		panic(targetPanicText("sync: unlock of unlocked mutex"))
	}
	ls.writer = false
	i.yield("Unlock")
	return nil
}
func extRLock(fr *frame, args []value) value {
	i := fr.i
	ls := i.lockFor(args[0])
	i.yield("RLock")
	i.block("rwmutex RLock", func() bool { return !ls.writer })
	ls.readers++
	return nil
}
func extTryRLock(fr *frame, args []value) value {
	ls := fr.i.lockFor(args[0])
	if ls.writer {
		return false
	}
	ls.readers++
	return true
}
func extRUnlock(fr *frame, args []value) value {
	i := fr.i
	ls := i.lockFor(args[0])
	if ls.readers <= 0 {
		panic(targetPanicText("sync: RUnlock of unlocked RWMutex"))
	}
	ls.readers--
	i.yield("RUnlock")
	return nil
}

func extOnceDo(fr *frame, args []value) value {
	i := fr.i
	key := args[0].(*value)
	if i.onces == nil {
		i.onces = map[*value]int{}
	}
	for i.onces[key] == 1 { // another goroutine is running f
		i.block("Once.Do", func() bool { return i.onces[key] != 1 })
	}
	if i.onces[key] == 2 {
		return nil
	}
	i.onces[key] = 1
	defer func() { i.onces[key] = 2 }()
	call(i, fr, token.NoPos, args[1], nil)
	return nil
}

func extPoolGet(fr *frame, args []value) value {
	st := (*args[0].(*value)).(structure)
	newFn := st[len(st)-1]
	switch f := newFn.(type) {
	case *ssa.Function:
		if f == nil {
			return iface{}
		}
	case nil:
		return iface{}
	}
	return call(fr.i, fr, token.NoPos, newFn, nil)
}

func extWGAdd(fr *frame, args []value) value {
	i := fr.i
	key := args[0].(*value)
	if i.wgs == nil {
		i.wgs = map[*value]int{}
	}
	i.wgs[key] += int(asInt64(args[1]))
	if i.wgs[key] < 0 {
		panic(targetPanicText("sync: negative WaitGroup counter"))
	}
	i.yield("WaitGroup.Add")
	return nil
}
func extWGWait(fr *frame, args []value) value {
	i := fr.i
	key := args[0].(*value)
	if i.wgs == nil {
		i.wgs = map[*value]int{}
	}
	i.yield("WaitGroup.Wait")
	i.block("WaitGroup.Wait", func() bool { return i.wgs[key] == 0 })
	return nil
}

// ---- sync/atomic ----

func init() {
	kinds := map[string]types.BasicKind{"Int32": types.Int32, "Int64": types.Int64, "Uint32": types.Uint32, "Uint64": types.Uint64, "Uintptr": types.Uintptr}
	for name := range kinds {
		externals["sync/atomic.Load"+name] = func(fr *frame, args []value) value {
			fr.i.yield("atomic.Load")
			return *args[0].(*value)
		}
		externals["sync/atomic.Store"+name] = func(fr *frame, args []value) value {
			*args[0].(*value) = args[1]
			fr.i.yield("atomic.Store")
			return nil
		}
		externals["sync/atomic.Swap"+name] = func(fr *frame, args []value) value {
			p := args[0].(*value)
			old := *p
			*p = args[1]
			fr.i.yield("atomic.Swap")
			return old
		}
		externals["sync/atomic.Add"+name] = func(fr *frame, args []value) value {
			p := args[0].(*value)
			*p = binop(token.ADD, nil, *p, args[1])
			fr.i.yield("atomic.Add")
			return *p
		}
		externals["sync/atomic.And"+name] = func(fr *frame, args []value) value {
			p := args[0].(*value)
			old := *p
			*p = binop(token.AND, nil, *p, args[1])
			return old
		}
		externals["sync/atomic.Or"+name] = func(fr *frame, args []value) value {
			p := args[0].(*value)
			old := *p
			*p = binop(token.OR, nil, *p, args[1])
			return old
		}
		externals["sync/atomic.CompareAndSwap"+name] = func(fr *frame, args []value) value {
			p := args[0].(*value)
			fr.i.yield("atomic.CAS")
			if fr.i.truth(binop(token.EQL, nil, *p, args[1])) {
				*p = args[2]
				return true
			}
			return false
		}
	}
	externals["sync/atomic.LoadPointer"] = func(fr *frame, args []value) value { return *args[0].(*value) }
	externals["sync/atomic.StorePointer"] = func(fr *frame, args []value) value { *args[0].(*value) = args[1]; return nil }
	externals["sync/atomic.SwapPointer"] = func(fr *frame, args []value) value {
		p := args[0].(*value)
		old := *p
		*p = args[1]
		return old
	}
	externals["sync/atomic.CompareAndSwapPointer"] = func(fr *frame, args []value) value {
		p := args[0].(*value)
		if *p == args[1] {
			*p = args[2]
			return true
		}
		return false
	}
	// atomic.Value: keep the stored interface in the struct's only field
	externals["(*sync/atomic.Value).Load"] = func(fr *frame, args []value) value {
		fr.i.yield("atomic.Value.Load")
		st := (*args[0].(*value)).(structure)
		return st[0]
	}
	externals["(*sync/atomic.Value).Store"] = func(fr *frame, args []value) value {
		st := (*args[0].(*value)).(structure)
		if args[1].(iface).t == nil {
			panic(targetPanicText("sync/atomic: store of nil value into Value"))
		}
		st[0] = args[1]
		fr.i.yield("atomic.Value.Store")
		return nil
	}
	externals["(*sync/atomic.Value).Swap"] = func(fr *frame, args []value) value {
		st := (*args[0].(*value)).(structure)
		old := st[0]
		st[0] = args[1]
		return old
	}
	externals["(*sync/atomic.Value).CompareAndSwap"] = func(fr *frame, args []value) value {
		st := (*args[0].(*value)).(structure)
		if st[0].(iface).t == nil && args[1].(iface).t == nil || (st[0].(iface).t != nil && args[1].(iface).t != nil && equals(nil, st[0], args[1])) {
			st[0] = args[2]
			return true
		}
		return false
	}
	// atomic.Pointer[T]: the unsafe.Pointer field holds the *value directly
	ptrField := func(recv value) *value {
		st := (*recv.(*value)).(structure)
		return &st[len(st)-1]
	}
	externals["(*sync/atomic.Pointer[T]).Load"] = func(fr *frame, args []value) value {
		fr.i.yield("atomic.Pointer.Load")
		v := *ptrField(args[0])
		if p, ok := v.(*value); ok {
			return p
		}
		return (*value)(nil)
	}
	externals["(*sync/atomic.Pointer[T]).Store"] = func(fr *frame, args []value) value {
		*ptrField(args[0]) = args[1]
		fr.i.yield("atomic.Pointer.Store")
		return nil
	}
	externals["(*sync/atomic.Pointer[T]).Swap"] = func(fr *frame, args []value) value {
		f := ptrField(args[0])
		old, _ := (*f).(*value)
		*f = args[1]
		return old
	}
	externals["(*sync/atomic.Pointer[T]).CompareAndSwap"] = func(fr *frame, args []value) value {
		f := ptrField(args[0])
		cur, _ := (*f).(*value)
		if cur == args[1].(*value) {
			*f = args[2]
			return true
		}
		return false
	}
}

// ---- math ----

func extFloat64bits(fr *frame, args []value) value {
	if s, ok := args[0].(sym); ok {
		// tie a fresh BV to the float: x == to_fp(b)
		i := fr.i
		tt := i.ps.tt
		b := tt.mkVar(smtIdent(i.ps.freshName("$f64bits")), bvSort(64))
		i.addPC(tt.mk("=", boolSort, s.t, tt.mk("to_fp_bits", fpSort(64), b)))
		return sym{b, types.Uint64}
	}
	return math.Float64bits(args[0].(float64))
}
func extFloat64frombits(fr *frame, args []value) value {
	if s, ok := args[0].(sym); ok {
		return sym{fr.i.ps.tt.mk("to_fp_bits", fpSort(64), s.t), types.Float64}
	}
	return math.Float64frombits(args[0].(uint64))
}
func extFloat32bits(fr *frame, args []value) value {
	if s, ok := args[0].(sym); ok {
		i := fr.i
		tt := i.ps.tt
		b := tt.mkVar(smtIdent(i.ps.freshName("$f32bits")), bvSort(32))
		i.addPC(tt.mk("=", boolSort, s.t, tt.mk("to_fp_bits", fpSort(32), b)))
		return sym{b, types.Uint32}
	}
	return math.Float32bits(args[0].(float32))
}
func extFloat32frombits(fr *frame, args []value) value {
	if s, ok := args[0].(sym); ok {
		return sym{fr.i.ps.tt.mk("to_fp_bits", fpSort(32), s.t), types.Float32}
	}
	return math.Float32frombits(args[0].(uint32))
}
func extIsNaN(fr *frame, args []value) value {
	if s, ok := args[0].(sym); ok {
		return mkSym(fr.i.ps.tt.mk("fp.isNaN", boolSort, s.t), types.Bool)
	}
	return math.IsNaN(args[0].(float64))
}
func extIsInf(fr *frame, args []value) value {
	sign := int(asInt64(fr.i.concretizeInt(args[1], "math.IsInf sign")))
	if s, ok := args[0].(sym); ok {
		tt := fr.i.ps.tt
		inf := tt.mk("fp.isInfinite", boolSort, s.t)
		switch {
		case sign > 0:
			return mkSym(tt.and(inf, tt.mk("fp.isPositive", boolSort, s.t)), types.Bool)
		case sign < 0:
			return mkSym(tt.and(inf, tt.mk("fp.isNegative", boolSort, s.t)), types.Bool)
		}
		return mkSym(inf, types.Bool)
	}
	return math.IsInf(args[0].(float64), sign)
}
func extAbs(fr *frame, args []value) value {
	if s, ok := args[0].(sym); ok {
		return sym{fr.i.ps.tt.mk("fp.abs", s.t.sort, s.t), types.Float64}
	}
	return math.Abs(args[0].(float64))
}
func extMathNative1(f func(float64) float64) externalFn {
	return func(fr *frame, args []value) value {
		x, ok := args[0].(float64)
		if !ok {
			fr.i.unsupported("math function on a symbolic float")
		}
		return f(x)
	}
}

// math.Pow(2, n) for an integral (possibly symbolic) n is built exactly from
// the exponent bits; anything else must be concrete.
func extPow(fr *frame, args []value) value {
	x, xok := args[0].(float64)
	y, yok := args[1].(float64)
	if xok && yok {
		return math.Pow(x, y)
	}
	i := fr.i
	if xok && x == 2 {
		if ys, ok := args[1].(sym); ok && ys.t.op == "to_fp_s" || ok && ys.t.op == "to_fp_u" {
			// y = float64(n) for an integer term n
			tt := i.ps.tt
			n := ys.t.args[0]
			signed := ys.t.op == "to_fp_s"
			n64 := tt.resizeBV(n, signed, 64)
			// 0 <= n <= 1023 -> bits = (n+1023)<<52 ; n >= 1024 -> +Inf ; n < 0: handled for n >= -1022
			geq0 := tt.mk("bvsge", boolSort, n64, tt.mkBV(0, 64))
			if !signed {
				geq0 = tt.mkBool(true)
			}
			if !i.decide(geq0) {
				i.unsupported("math.Pow(2, n) with symbolic negative n")
			}
			big := tt.mk("bvsge", boolSort, n64, tt.mkBV(1024, 64))
			bits := tt.mk("bvshl", bvSort(64), tt.mk("bvadd", bvSort(64), n64, tt.mkBV(1023, 64)), tt.mkBV(52, 64))
			normal := tt.mk("to_fp_bits", fpSort(64), bits)
			return mkSym(tt.ite(big, tt.mkFP(math.Float64bits(math.Inf(1)), 64), normal), types.Float64)
		}
	}
	i.unsupported("math.Pow with symbolic arguments other than Pow(2, float64(n))")
	return nil
}

var _ = os.Getenv
var _ unsafe.Pointer
