// Copyright 2013 The Go Authors. All rights reserved.
// Use of this source code is governed by a BSD-style
// license that can be found in the LICENSE file.

package interp

import (
	"bytes"
	"fmt"
	"go/constant"
	"go/token"
	"go/types"
	"os"
	"reflect"
	"strings"
	"unsafe"

	"golang.org/x/tools/go/ssa"
)

// If the target program panics, the interpreter panics with this type.
type targetPanic struct {
	v value
}

func (p targetPanic) String() string {
	return toString(p.v)
}

// If the target program calls exit, the interpreter panics with this type.
type exitPanic int

// constValue returns the value of the constant with the
// dynamic type tag appropriate for c.Type().
func constValue(c *ssa.Const) value {
	if c.Value == nil {
		return zero(c.Type()) // typed zero
	}
	// c is not a type parameter so it's underlying type is basic.

	if t, ok := c.Type().Underlying().(*types.Basic); ok {
		// TODO(adonovan): eliminate untyped constants from SSA form.
		switch t.Kind() {
		case types.Bool, types.UntypedBool:
			return constant.BoolVal(c.Value)
		case types.Int, types.UntypedInt:
			// Assume sizeof(int) is same on host and target.
			return int(c.Int64())
		case types.Int8:
			return int8(c.Int64())
		case types.Int16:
			return int16(c.Int64())
		case types.Int32, types.UntypedRune:
			return int32(c.Int64())
		case types.Int64:
			return c.Int64()
		case types.Uint:
			// Assume sizeof(uint) is same on host and target.
			return uint(c.Uint64())
		case types.Uint8:
			return uint8(c.Uint64())
		case types.Uint16:
			return uint16(c.Uint64())
		case types.Uint32:
			return uint32(c.Uint64())
		case types.Uint64:
			return c.Uint64()
		case types.Uintptr:
			// Assume sizeof(uintptr) is same on host and target.
			return uintptr(c.Uint64())
		case types.Float32:
			return float32(c.Float64())
		case types.Float64, types.UntypedFloat:
			return c.Float64()
		case types.Complex64:
			return complex64(c.Complex128())
		case types.Complex128, types.UntypedComplex:
			return c.Complex128()
		case types.String, types.UntypedString:
			if c.Value.Kind() == constant.String {
				return constant.StringVal(c.Value)
			}
			return string(rune(c.Int64()))
		}
	}

	panic(fmt.Sprintf("constValue: %s", c))
}

// fitsInt returns true if x fits in type int according to sizes.
func fitsInt(x int64, sizes types.Sizes) bool {
	intSize := sizes.Sizeof(types.Typ[types.Int])
	if intSize < sizes.Sizeof(types.Typ[types.Int64]) {
		maxInt := int64(1)<<((intSize*8)-1) - 1
		minInt := -int64(1) << ((intSize * 8) - 1)
		return minInt <= x && x <= maxInt
	}
	return true
}

// asInt64 converts x, which must be an integer, to an int64.
//
// Callers that need a value directly usable as an int should combine this with fitsInt().
func asInt64(x value) int64 {
	switch x := x.(type) {
	case int:
		return int64(x)
	case int8:
		return int64(x)
	case int16:
		return int64(x)
	case int32:
		return int64(x)
	case int64:
		return x
	case uint:
		return int64(x)
	case uint8:
		return int64(x)
	case uint16:
		return int64(x)
	case uint32:
		return int64(x)
	case uint64:
		return int64(x)
	case uintptr:
		return int64(x)
	}
	panic(fmt.Sprintf("cannot convert %T to int64", x))
}

// asUint64 converts x, which must be an unsigned integer, to a uint64
// suitable for use as a bitwise shift count.
func asUint64(x value) uint64 {
	switch x := x.(type) {
	case uint:
		return uint64(x)
	case uint8:
		return uint64(x)
	case uint16:
		return uint64(x)
	case uint32:
		return uint64(x)
	case uint64:
		return x
	case uintptr:
		return uint64(x)
	}
	panic(fmt.Sprintf("cannot convert %T to uint64", x))
}

// asUnsigned returns the value of x, which must be an integer type, as its equivalent unsigned type,
// and returns true if x is non-negative.
func asUnsigned(x value) (value, bool) {
	switch x := x.(type) {
	case int:
		return uint(x), x >= 0
	case int8:
		return uint8(x), x >= 0
	case int16:
		return uint16(x), x >= 0
	case int32:
		return uint32(x), x >= 0
	case int64:
		return uint64(x), x >= 0
	case uint, uint8, uint32, uint64, uintptr:
		return x, true
	}
	panic(fmt.Sprintf("cannot convert %T to unsigned", x))
}

// zero returns a new "zero" value of the specified type.
func zero(t types.Type) value {
	switch t := t.(type) {
	case *types.Basic:
		if t.Kind() == types.UntypedNil {
			panic("untyped nil has no zero value")
		}
		if t.Info()&types.IsUntyped != 0 {
			// TODO(adonovan): make it an invariant that
			// this is unreachable.  Currently some
			// constants have 'untyped' types when they
			// should be defaulted by the typechecker.
			t = types.Default(t).(*types.Basic)
		}
		switch t.Kind() {
		case types.Bool:
			return false
		case types.Int:
			return int(0)
		case types.Int8:
			return int8(0)
		case types.Int16:
			return int16(0)
		case types.Int32:
			return int32(0)
		case types.Int64:
			return int64(0)
		case types.Uint:
			return uint(0)
		case types.Uint8:
			return uint8(0)
		case types.Uint16:
			return uint16(0)
		case types.Uint32:
			return uint32(0)
		case types.Uint64:
			return uint64(0)
		case types.Uintptr:
			return uintptr(0)
		case types.Float32:
			return float32(0)
		case types.Float64:
			return float64(0)
		case types.Complex64:
			return complex64(0)
		case types.Complex128:
			return complex128(0)
		case types.String:
			return ""
		case types.UnsafePointer:
			return unsafe.Pointer(nil)
		default:
			panic(fmt.Sprint("zero for unexpected type:", t))
		}
	case *types.Pointer:
		return (*value)(nil)
	case *types.Array:
		a := make(array, t.Len())
		for i := range a {
			a[i] = zero(t.Elem())
		}
		return a
	case *types.Named:
		return zero(t.Underlying())
	case *types.Alias:
		return zero(types.Unalias(t))
	case *types.Interface:
		return iface{} // nil type, methodset and value
	case *types.Slice:
		return []value(nil)
	case *types.Struct:
		s := make(structure, t.NumFields())
		for i := range s {
			s[i] = zero(t.Field(i).Type())
		}
		return s
	case *types.Tuple:
		if t.Len() == 1 {
			return zero(t.At(0).Type())
		}
		s := make(tuple, t.Len())
		for i := range s {
			s[i] = zero(t.At(i).Type())
		}
		return s
	case *types.Chan:
		return (*vchan)(nil)
	case *types.Map:
		if usesBuiltinMap(t.Key()) {
			return map[value]value(nil)
		}
		return (*hashmap)(nil)
	case *types.Signature:
		return (*ssa.Function)(nil)
	}
	panic(fmt.Sprint("zero: unexpected ", t))
}

// slice returns x[lo:hi:max].  Any of lo, hi and max may be nil.
func slice(x, lo, hi, max value) value {
	var Len, Cap int
	switch x := x.(type) {
	case string:
		Len = len(x)
	case []value:
		Len = len(x)
		Cap = cap(x)
	case *value: // *array
		a := (*x).(array)
		Len = len(a)
		Cap = cap(a)
	}

	l := int64(0)
	if lo != nil {
		l = asInt64(lo)
	}

	h := int64(Len)
	if hi != nil {
		h = asInt64(hi)
	}

	m := int64(Cap)
	if max != nil {
		m = asInt64(max)
	}

	switch x := x.(type) {
	case string:
		return x[l:h]
	case []value:
		return x[l:h:m]
	case *value: // *array
		a := (*x).(array)
		return []value(a)[l:h:m]
	}
	panic(fmt.Sprintf("slice: unexpected X type: %T", x))
}

// lookup returns x[idx] where x is a map.
func lookup(instr *ssa.Lookup, x, idx value) value {
	switch x := x.(type) { // map or string
	case map[value]value, *hashmap:
		var v value
		var ok bool
		switch x := x.(type) {
		case map[value]value:
			v, ok = x[idx]
		case *hashmap:
			v = x.lookup(idx.(hashable))
			ok = v != nil
		}
		if !ok {
			v = zero(instr.X.Type().Underlying().(*types.Map).Elem())
		}
		if instr.CommaOk {
			v = tuple{v, ok}
		}
		return v
	}
	panic(fmt.Sprintf("unexpected x type in Lookup: %T", x))
}

// binop implements all arithmetic and logical binary operators for
// numeric datatypes and strings.  Both operands must have identical
// dynamic type.
func binop(op token.Token, t types.Type, x, y value) value {
	if r, ok := symDecimalBinop(op, x, y); ok {
		return r
	}
	if i := ownerOf(x, y); i != nil {
		if _, ok := x.(poison); ok {
			return x
		}
		if _, ok := y.(poison); ok {
			return y
		}
		if isStr(x) && isStr(y) {
			return i.strBinop(op, x, y)
		}
		_, sx := x.(sym)
		_, sy := y.(sym)
		if sx || sy {
			return i.symBinop(op, x, y)
		}
	} else if isPoison(x) || isPoison(y) {
		return poisonOf(x, y)
	}
	switch op {
	case token.ADD:
		switch x.(type) {
		case int:
			return x.(int) + y.(int)
		case int8:
			return x.(int8) + y.(int8)
		case int16:
			return x.(int16) + y.(int16)
		case int32:
			return x.(int32) + y.(int32)
		case int64:
			return x.(int64) + y.(int64)
		case uint:
			return x.(uint) + y.(uint)
		case uint8:
			return x.(uint8) + y.(uint8)
		case uint16:
			return x.(uint16) + y.(uint16)
		case uint32:
			return x.(uint32) + y.(uint32)
		case uint64:
			return x.(uint64) + y.(uint64)
		case uintptr:
			return x.(uintptr) + y.(uintptr)
		case float32:
			return x.(float32) + y.(float32)
		case float64:
			return x.(float64) + y.(float64)
		case complex64:
			return x.(complex64) + y.(complex64)
		case complex128:
			return x.(complex128) + y.(complex128)
		case string:
			return x.(string) + y.(string)
		}

	case token.SUB:
		switch x.(type) {
		case int:
			return x.(int) - y.(int)
		case int8:
			return x.(int8) - y.(int8)
		case int16:
			return x.(int16) - y.(int16)
		case int32:
			return x.(int32) - y.(int32)
		case int64:
			return x.(int64) - y.(int64)
		case uint:
			return x.(uint) - y.(uint)
		case uint8:
			return x.(uint8) - y.(uint8)
		case uint16:
			return x.(uint16) - y.(uint16)
		case uint32:
			return x.(uint32) - y.(uint32)
		case uint64:
			return x.(uint64) - y.(uint64)
		case uintptr:
			return x.(uintptr) - y.(uintptr)
		case float32:
			return x.(float32) - y.(float32)
		case float64:
			return x.(float64) - y.(float64)
		case complex64:
			return x.(complex64) - y.(complex64)
		case complex128:
			return x.(complex128) - y.(complex128)
		}

	case token.MUL:
		switch x.(type) {
		case int:
			return x.(int) * y.(int)
		case int8:
			return x.(int8) * y.(int8)
		case int16:
			return x.(int16) * y.(int16)
		case int32:
			return x.(int32) * y.(int32)
		case int64:
			return x.(int64) * y.(int64)
		case uint:
			return x.(uint) * y.(uint)
		case uint8:
			return x.(uint8) * y.(uint8)
		case uint16:
			return x.(uint16) * y.(uint16)
		case uint32:
			return x.(uint32) * y.(uint32)
		case uint64:
			return x.(uint64) * y.(uint64)
		case uintptr:
			return x.(uintptr) * y.(uintptr)
		case float32:
			return x.(float32) * y.(float32)
		case float64:
			return x.(float64) * y.(float64)
		case complex64:
			return x.(complex64) * y.(complex64)
		case complex128:
			return x.(complex128) * y.(complex128)
		}

	case token.QUO:
		switch x.(type) {
		case int:
			return x.(int) / y.(int)
		case int8:
			return x.(int8) / y.(int8)
		case int16:
			return x.(int16) / y.(int16)
		case int32:
			return x.(int32) / y.(int32)
		case int64:
			return x.(int64) / y.(int64)
		case uint:
			return x.(uint) / y.(uint)
		case uint8:
			return x.(uint8) / y.(uint8)
		case uint16:
			return x.(uint16) / y.(uint16)
		case uint32:
			return x.(uint32) / y.(uint32)
		case uint64:
			return x.(uint64) / y.(uint64)
		case uintptr:
			return x.(uintptr) / y.(uintptr)
		case float32:
			return x.(float32) / y.(float32)
		case float64:
			return x.(float64) / y.(float64)
		case complex64:
			return x.(complex64) / y.(complex64)
		case complex128:
			return x.(complex128) / y.(complex128)
		}

	case token.REM:
		switch x.(type) {
		case int:
			return x.(int) % y.(int)
		case int8:
			return x.(int8) % y.(int8)
		case int16:
			return x.(int16) % y.(int16)
		case int32:
			return x.(int32) % y.(int32)
		case int64:
			return x.(int64) % y.(int64)
		case uint:
			return x.(uint) % y.(uint)
		case uint8:
			return x.(uint8) % y.(uint8)
		case uint16:
			return x.(uint16) % y.(uint16)
		case uint32:
			return x.(uint32) % y.(uint32)
		case uint64:
			return x.(uint64) % y.(uint64)
		case uintptr:
			return x.(uintptr) % y.(uintptr)
		}

	case token.AND:
		switch x.(type) {
		case int:
			return x.(int) & y.(int)
		case int8:
			return x.(int8) & y.(int8)
		case int16:
			return x.(int16) & y.(int16)
		case int32:
			return x.(int32) & y.(int32)
		case int64:
			return x.(int64) & y.(int64)
		case uint:
			return x.(uint) & y.(uint)
		case uint8:
			return x.(uint8) & y.(uint8)
		case uint16:
			return x.(uint16) & y.(uint16)
		case uint32:
			return x.(uint32) & y.(uint32)
		case uint64:
			return x.(uint64) & y.(uint64)
		case uintptr:
			return x.(uintptr) & y.(uintptr)
		}

	case token.OR:
		switch x.(type) {
		case int:
			return x.(int) | y.(int)
		case int8:
			return x.(int8) | y.(int8)
		case int16:
			return x.(int16) | y.(int16)
		case int32:
			return x.(int32) | y.(int32)
		case int64:
			return x.(int64) | y.(int64)
		case uint:
			return x.(uint) | y.(uint)
		case uint8:
			return x.(uint8) | y.(uint8)
		case uint16:
			return x.(uint16) | y.(uint16)
		case uint32:
			return x.(uint32) | y.(uint32)
		case uint64:
			return x.(uint64) | y.(uint64)
		case uintptr:
			return x.(uintptr) | y.(uintptr)
		}

	case token.XOR:
		switch x.(type) {
		case int:
			return x.(int) ^ y.(int)
		case int8:
			return x.(int8) ^ y.(int8)
		case int16:
			return x.(int16) ^ y.(int16)
		case int32:
			return x.(int32) ^ y.(int32)
		case int64:
			return x.(int64) ^ y.(int64)
		case uint:
			return x.(uint) ^ y.(uint)
		case uint8:
			return x.(uint8) ^ y.(uint8)
		case uint16:
			return x.(uint16) ^ y.(uint16)
		case uint32:
			return x.(uint32) ^ y.(uint32)
		case uint64:
			return x.(uint64) ^ y.(uint64)
		case uintptr:
			return x.(uintptr) ^ y.(uintptr)
		}

	case token.AND_NOT:
		switch x.(type) {
		case int:
			return x.(int) &^ y.(int)
		case int8:
			return x.(int8) &^ y.(int8)
		case int16:
			return x.(int16) &^ y.(int16)
		case int32:
			return x.(int32) &^ y.(int32)
		case int64:
			return x.(int64) &^ y.(int64)
		case uint:
			return x.(uint) &^ y.(uint)
		case uint8:
			return x.(uint8) &^ y.(uint8)
		case uint16:
			return x.(uint16) &^ y.(uint16)
		case uint32:
			return x.(uint32) &^ y.(uint32)
		case uint64:
			return x.(uint64) &^ y.(uint64)
		case uintptr:
			return x.(uintptr) &^ y.(uintptr)
		}

	case token.SHL:
		u, ok := asUnsigned(y)
		if !ok {
			panic("negative shift amount")
		}
		y := asUint64(u)
		switch x.(type) {
		case int:
			return x.(int) << y
		case int8:
			return x.(int8) << y
		case int16:
			return x.(int16) << y
		case int32:
			return x.(int32) << y
		case int64:
			return x.(int64) << y
		case uint:
			return x.(uint) << y
		case uint8:
			return x.(uint8) << y
		case uint16:
			return x.(uint16) << y
		case uint32:
			return x.(uint32) << y
		case uint64:
			return x.(uint64) << y
		case uintptr:
			return x.(uintptr) << y
		}

	case token.SHR:
		u, ok := asUnsigned(y)
		if !ok {
			panic("negative shift amount")
		}
		y := asUint64(u)
		switch x.(type) {
		case int:
			return x.(int) >> y
		case int8:
			return x.(int8) >> y
		case int16:
			return x.(int16) >> y
		case int32:
			return x.(int32) >> y
		case int64:
			return x.(int64) >> y
		case uint:
			return x.(uint) >> y
		case uint8:
			return x.(uint8) >> y
		case uint16:
			return x.(uint16) >> y
		case uint32:
			return x.(uint32) >> y
		case uint64:
			return x.(uint64) >> y
		case uintptr:
			return x.(uintptr) >> y
		}

	case token.LSS:
		switch x.(type) {
		case int:
			return x.(int) < y.(int)
		case int8:
			return x.(int8) < y.(int8)
		case int16:
			return x.(int16) < y.(int16)
		case int32:
			return x.(int32) < y.(int32)
		case int64:
			return x.(int64) < y.(int64)
		case uint:
			return x.(uint) < y.(uint)
		case uint8:
			return x.(uint8) < y.(uint8)
		case uint16:
			return x.(uint16) < y.(uint16)
		case uint32:
			return x.(uint32) < y.(uint32)
		case uint64:
			return x.(uint64) < y.(uint64)
		case uintptr:
			return x.(uintptr) < y.(uintptr)
		case float32:
			return x.(float32) < y.(float32)
		case float64:
			return x.(float64) < y.(float64)
		case string:
			return x.(string) < y.(string)
		}

	case token.LEQ:
		switch x.(type) {
		case int:
			return x.(int) <= y.(int)
		case int8:
			return x.(int8) <= y.(int8)
		case int16:
			return x.(int16) <= y.(int16)
		case int32:
			return x.(int32) <= y.(int32)
		case int64:
			return x.(int64) <= y.(int64)
		case uint:
			return x.(uint) <= y.(uint)
		case uint8:
			return x.(uint8) <= y.(uint8)
		case uint16:
			return x.(uint16) <= y.(uint16)
		case uint32:
			return x.(uint32) <= y.(uint32)
		case uint64:
			return x.(uint64) <= y.(uint64)
		case uintptr:
			return x.(uintptr) <= y.(uintptr)
		case float32:
			return x.(float32) <= y.(float32)
		case float64:
			return x.(float64) <= y.(float64)
		case string:
			return x.(string) <= y.(string)
		}

	case token.EQL:
		return eqnil(t, x, y)

	case token.NEQ:
		return !eqnil(t, x, y)

	case token.GTR:
		switch x.(type) {
		case int:
			return x.(int) > y.(int)
		case int8:
			return x.(int8) > y.(int8)
		case int16:
			return x.(int16) > y.(int16)
		case int32:
			return x.(int32) > y.(int32)
		case int64:
			return x.(int64) > y.(int64)
		case uint:
			return x.(uint) > y.(uint)
		case uint8:
			return x.(uint8) > y.(uint8)
		case uint16:
			return x.(uint16) > y.(uint16)
		case uint32:
			return x.(uint32) > y.(uint32)
		case uint64:
			return x.(uint64) > y.(uint64)
		case uintptr:
			return x.(uintptr) > y.(uintptr)
		case float32:
			return x.(float32) > y.(float32)
		case float64:
			return x.(float64) > y.(float64)
		case string:
			return x.(string) > y.(string)
		}

	case token.GEQ:
		switch x.(type) {
		case int:
			return x.(int) >= y.(int)
		case int8:
			return x.(int8) >= y.(int8)
		case int16:
			return x.(int16) >= y.(int16)
		case int32:
			return x.(int32) >= y.(int32)
		case int64:
			return x.(int64) >= y.(int64)
		case uint:
			return x.(uint) >= y.(uint)
		case uint8:
			return x.(uint8) >= y.(uint8)
		case uint16:
			return x.(uint16) >= y.(uint16)
		case uint32:
			return x.(uint32) >= y.(uint32)
		case uint64:
			return x.(uint64) >= y.(uint64)
		case uintptr:
			return x.(uintptr) >= y.(uintptr)
		case float32:
			return x.(float32) >= y.(float32)
		case float64:
			return x.(float64) >= y.(float64)
		case string:
			return x.(string) >= y.(string)
		}
	}
	panic(fmt.Sprintf("invalid binary op: %T %s %T", x, op, y))
}

// eqnil returns the comparison x == y using the equivalence relation
// appropriate for type t.
// If t is a reference type, at most one of x or y may be a nil value
// of that type.
func eqnil(t types.Type, x, y value) bool {
	switch t.Underlying().(type) {
	case *types.Map, *types.Signature, *types.Slice:
		// Since these types don't support comparison,
		// one of the operands must be a literal nil.
		switch x := x.(type) {
		case *hashmap:
			return (x != nil) == (y.(*hashmap) != nil)
		case map[value]value:
			return (x != nil) == (y.(map[value]value) != nil)
		case *ssa.Function:
			switch y := y.(type) {
			case *ssa.Function:
				return (x != nil) == (y != nil)
			case *closure:
				return true
			}
		case *closure:
			return (x != nil) == (y.(*ssa.Function) != nil)
		case []value:
			return (x != nil) == (y.([]value) != nil)
		}
		panic(fmt.Sprintf("eqnil(%s): illegal dynamic type: %T", t, x))
	}

	return equals(t, x, y)
}

func unop(fr *frame, instr *ssa.UnOp, x value) value {
	if s, ok := x.(sym); ok {
		return fr.i.symUnop(instr.Op, s)
	}
	if isPoison(x) {
		return x
	}
	switch instr.Op {
	case token.ARROW: // receive
		v, ok := fr.i.chanRecv(x.(*vchan))
		if !ok {
			v = zero(instr.X.Type().Underlying().(*types.Chan).Elem())
		}
		if instr.CommaOk {
			v = tuple{v, ok}
		}
		return v
	case token.SUB:
		switch x := x.(type) {
		case int:
			return -x
		case int8:
			return -x
		case int16:
			return -x
		case int32:
			return -x
		case int64:
			return -x
		case uint:
			return -x
		case uint8:
			return -x
		case uint16:
			return -x
		case uint32:
			return -x
		case uint64:
			return -x
		case uintptr:
			return -x
		case float32:
			return -x
		case float64:
			return -x
		case complex64:
			return -x
		case complex128:
			return -x
		}
	case token.MUL:
		if r, ok := x.(symRef); ok {
			return fr.i.selectElem(r.elems, r.idx, elemKind(r.elems))
		}
		if fr.i.sched != nil && fr.i.sched.racy && !isLocalAlloc(instr.X) {
			if _, isGlobal := instr.X.(*ssa.Global); !isGlobal {
				fr.i.yield("mem")
			}
		}
		px := x.(*value)
		if px == nil {
			panic(runtimeErrorText("invalid memory address or nil pointer dereference"))
		}
		return fr.i.loadChecked(mustDeref(instr.X.Type()), px)
	case token.NOT:
		return !x.(bool)
	case token.XOR:
		switch x := x.(type) {
		case int:
			return ^x
		case int8:
			return ^x
		case int16:
			return ^x
		case int32:
			return ^x
		case int64:
			return ^x
		case uint:
			return ^x
		case uint8:
			return ^x
		case uint16:
			return ^x
		case uint32:
			return ^x
		case uint64:
			return ^x
		case uintptr:
			return ^x
		}
	}
	panic(fmt.Sprintf("invalid unary op %s %T", instr.Op, x))
}

// typeAssert checks whether dynamic type of itf is instr.AssertedType.
// It returns the extracted value on success, and panics on failure,
// unless instr.CommaOk, in which case it always returns a "value,ok" tuple.
func typeAssert(i *interpreter, instr *ssa.TypeAssert, itf iface) value {
	var v value
	err := ""
	if itf.t == nil {
		err = fmt.Sprintf("interface conversion: interface is nil, not %s", instr.AssertedType)

	} else if idst, ok := instr.AssertedType.Underlying().(*types.Interface); ok {
		v = itf
		err = checkInterface(i, idst, itf)

	} else if types.Identical(itf.t, instr.AssertedType) {
		v = itf.v // extract value

	} else {
		err = fmt.Sprintf("interface conversion: interface is %s, not %s", itf.t, instr.AssertedType)
	}
	// Note: if instr.Underlying==true ever becomes reachable from interp check that
	// types.Identical(itf.t.Underlying(), instr.AssertedType)

	if err != "" {
		if !instr.CommaOk {
			panic(err)
		}
		return tuple{zero(instr.AssertedType), false}
	}
	if instr.CommaOk {
		return tuple{v, true}
	}
	return v
}

// This variable is no longer used but remains to prevent build breakage.
var CapturedOutput *bytes.Buffer

// callBuiltin interprets a call to builtin fn with arguments args,
// returning its result.
func callBuiltin(caller *frame, callpos token.Pos, fn *ssa.Builtin, args []value) value {
	switch fn.Name() {
	case "append":
		if len(args) == 1 {
			return args[0]
		}
		if isStr(args[1]) {
			// append([]byte, ...string) []byte
			return append(args[0].([]value), strBytes(args[1])...)
		}
		// append([]T, ...[]T) []T
		return append(args[0].([]value), args[1].([]value)...)

	case "copy": // copy([]T, []T) int or copy([]byte, string) int
		src := args[1]
		if isStr(src) {
			src = strBytes(src)
		}
		return copy(args[0].([]value), src.([]value))

	case "close": // close(chan T)
		caller.i.chanClose(args[0].(*vchan))
		return nil

	case "delete": // delete(map[K]value, K)
		switch m := args[0].(type) {
		case map[value]value:
			delete(m, caller.i.concreteKey(args[1]))
		case *hashmap:
			m.delete(caller.i.concreteKey(args[1]).(hashable))
		default:
			panic(fmt.Sprintf("illegal map type: %T", m))
		}
		return nil

	case "print", "println": // print(any, ...)
		ln := fn.Name() == "println"
		var buf bytes.Buffer
		for i, arg := range args {
			if i > 0 && ln {
				buf.WriteRune(' ')
			}
			buf.WriteString(toString(arg))
		}
		if ln {
			buf.WriteRune('\n')
		}
		os.Stderr.Write(buf.Bytes())
		return nil

	case "len":
		switch x := args[0].(type) {
		case string:
			return len(x)
		case sstr:
			return len(x.b)
		case array:
			return len(x)
		case *value:
			return len((*x).(array))
		case []value:
			return len(x)
		case map[value]value:
			return len(x)
		case *hashmap:
			return x.len()
		case *vchan:
			return x.length()
		default:
			panic(fmt.Sprintf("len: illegal operand: %T", x))
		}

	case "cap":
		switch x := args[0].(type) {
		case array:
			return cap(x)
		case *value:
			return cap((*x).(array))
		case []value:
			return cap(x)
		case *vchan:
			return x.capacity()
		default:
			panic(fmt.Sprintf("cap: illegal operand: %T", x))
		}

	case "min":
		return foldLeft(min, args)
	case "max":
		return foldLeft(max, args)

	case "real":
		switch c := args[0].(type) {
		case complex64:
			return real(c)
		case complex128:
			return real(c)
		default:
			panic(fmt.Sprintf("real: illegal operand: %T", c))
		}

	case "imag":
		switch c := args[0].(type) {
		case complex64:
			return imag(c)
		case complex128:
			return imag(c)
		default:
			panic(fmt.Sprintf("imag: illegal operand: %T", c))
		}

	case "complex":
		switch f := args[0].(type) {
		case float32:
			return complex(f, args[1].(float32))
		case float64:
			return complex(f, args[1].(float64))
		default:
			panic(fmt.Sprintf("complex: illegal operand: %T", f))
		}

	case "panic":
		// ssa.Panic handles most cases; this is only for "go
		// panic" or "defer panic".
		panic(targetPanic{args[0]})

	case "recover":
		return doRecover(caller)

	case "ssa:wrapnilchk":
		recv := args[0]
		if pv, isPtr := recv.(*value); isPtr && pv == nil {
			recvType := args[1]
			methodName := args[2]
			panic(fmt.Sprintf("value method (%s).%s called using nil *%s pointer",
				recvType, methodName, recvType))
		}
		return recv

	case "ssa:deferstack":
		return &caller.defers

	// package unsafe: element pointers are pointers into the []value backing array,
	// so the host's unsafe.Slice reconstructs the sequence.
	case "String":
		n := int(asInt64(caller.i.concretizeInt(args[1], "unsafe.String length")))
		p, _ := args[0].(*value)
		if n == 0 || p == nil {
			return ""
		}
		elems := unsafe.Slice(p, n)
		return mkStr(elems)
	case "Slice":
		n := int(asInt64(caller.i.concretizeInt(args[1], "unsafe.Slice length")))
		p, _ := args[0].(*value)
		if p == nil {
			return []value(nil)
		}
		return unsafe.Slice(p, n)
	case "SliceData":
		s := args[0].([]value)
		if cap(s) == 0 {
			return (*value)(nil)
		}
		return &s[:1][0]
	case "StringData":
		b := strBytes(args[0])
		if len(b) == 0 {
			return (*value)(nil)
		}
		cp := make([]value, len(b))
		copy(cp, b)
		return &cp[0]
	case "clear":
		switch x := args[0].(type) {
		case []value:
			for k := range x {
				x[k] = zeroLike(x[k])
			}
		case map[value]value:
			for k := range x {
				delete(x, k)
			}
		case *hashmap:
			if x != nil {
				x.table = map[int]*entry{}
				x.length = 0
			}
		}
		return nil
	}

	panic("unknown built-in: " + fn.Name())
}

func rangeIter(x value, t types.Type) iter {
	switch x := x.(type) {
	case map[value]value:
		return &mapIter{iter: reflect.ValueOf(x).MapRange()}
	case *hashmap:
		return &hashmapIter{iter: reflect.ValueOf(x.entries()).MapRange()}
	case string:
		return &stringIter{Reader: strings.NewReader(x)}
	}
	panic(fmt.Sprintf("cannot range over %T", x))
}

// widen widens a basic typed value x to the widest type of its
// category, one of:
//
//	bool, int64, uint64, float64, complex128, string.
//
// This is inefficient but reduces the size of the cross-product of
// cases we have to consider.
func widen(x value) value {
	switch y := x.(type) {
	case bool, int64, uint64, float64, complex128, string, unsafe.Pointer:
		return x
	case int:
		return int64(y)
	case int8:
		return int64(y)
	case int16:
		return int64(y)
	case int32:
		return int64(y)
	case uint:
		return uint64(y)
	case uint8:
		return uint64(y)
	case uint16:
		return uint64(y)
	case uint32:
		return uint64(y)
	case uintptr:
		return uint64(y)
	case float32:
		return float64(y)
	case complex64:
		return complex128(y)
	}
	panic(fmt.Sprintf("cannot widen %T", x))
}

// conv converts the value x of type t_src to type t_dst and returns
// the result.
// Possible cases are described with the ssa.Convert operator.
func conv(t_dst, t_src types.Type, x value) value {
	ut_src := t_src.Underlying()
	ut_dst := t_dst.Underlying()
	if isPoison(x) {
		return x
	}
	if r, ok := symConvHook(ut_dst, ut_src, x); ok {
		return r
	}

	// Destination type is not an "untyped" type.
	if b, ok := ut_dst.(*types.Basic); ok && b.Info()&types.IsUntyped != 0 {
		panic("oops: conversion to 'untyped' type: " + b.String())
	}

	// Nor is it an interface type.
	if _, ok := ut_dst.(*types.Interface); ok {
		if _, ok := ut_src.(*types.Interface); ok {
			panic("oops: Convert should be ChangeInterface")
		} else {
			panic("oops: Convert should be MakeInterface")
		}
	}

	// Remaining conversions:
	//    + untyped string/number/bool constant to a specific
	//      representation.
	//    + conversions between non-complex numeric types.
	//    + conversions between complex numeric types.
	//    + integer/[]byte/[]rune -> string.
	//    + string -> []byte/[]rune.
	//
	// All are treated the same: first we extract the value to the
	// widest representation (int64, uint64, float64, complex128,
	// or string), then we convert it to the desired type.

	switch ut_src := ut_src.(type) {
	case *types.Pointer:
		switch ut_dst := ut_dst.(type) {
		case *types.Basic:
			// *value to unsafe.Pointer?
			if ut_dst.Kind() == types.UnsafePointer {
				return unsafe.Pointer(x.(*value))
			}
		}

	case *types.Slice:
		// []byte or []rune -> string
		switch ut_src.Elem().Underlying().(*types.Basic).Kind() {
		case types.Byte:
			x := x.([]value)
			b := make([]byte, 0, len(x))
			for i := range x {
				b = append(b, x[i].(byte))
			}
			return string(b)

		case types.Rune:
			x := x.([]value)
			r := make([]rune, 0, len(x))
			for i := range x {
				r = append(r, x[i].(rune))
			}
			return string(r)
		}

	case *types.Basic:
		x = widen(x)

		// integer -> string?
		if ut_src.Info()&types.IsInteger != 0 {
			if ut_dst, ok := ut_dst.(*types.Basic); ok && ut_dst.Kind() == types.String {
				return fmt.Sprintf("%c", x)
			}
		}

		// string -> []rune, []byte or string?
		if s, ok := x.(string); ok {
			switch ut_dst := ut_dst.(type) {
			case *types.Slice:
				var res []value
				switch ut_dst.Elem().Underlying().(*types.Basic).Kind() {
				case types.Rune:
					for _, r := range []rune(s) {
						res = append(res, r)
					}
					return res
				case types.Byte:
					for _, b := range []byte(s) {
						res = append(res, b)
					}
					return res
				}
			case *types.Basic:
				if ut_dst.Kind() == types.String {
					return x.(string)
				}
			}
			break // fail: no other conversions for string
		}

		// unsafe.Pointer -> *value
		if ut_src.Kind() == types.UnsafePointer {
			// TODO(adonovan): this is wrong and cannot
			// really be fixed with the current design.
			//
			// return (*value)(x.(unsafe.Pointer))
			// creates a new pointer of a different
			// type but the underlying interface value
			// knows its "true" type and so cannot be
			// meaningfully used through the new pointer.
			//
			// To make this work, the interpreter needs to
			// simulate the memory layout of a real
			// compiled implementation.
			//
			// To at least preserve type-safety, we'll
			// just return the zero value of the
			// destination type.
			return zero(t_dst)
		}

		// Conversions between complex numeric types?
		if ut_src.Info()&types.IsComplex != 0 {
			switch ut_dst.(*types.Basic).Kind() {
			case types.Complex64:
				return complex64(x.(complex128))
			case types.Complex128:
				return x.(complex128)
			}
			break // fail: no other conversions for complex
		}

		// Conversions between non-complex numeric types?
		if ut_src.Info()&types.IsNumeric != 0 {
			kind := ut_dst.(*types.Basic).Kind()
			switch x := x.(type) {
			case int64: // signed integer -> numeric?
				switch kind {
				case types.Int:
					return int(x)
				case types.Int8:
					return int8(x)
				case types.Int16:
					return int16(x)
				case types.Int32:
					return int32(x)
				case types.Int64:
					return int64(x)
				case types.Uint:
					return uint(x)
				case types.Uint8:
					return uint8(x)
				case types.Uint16:
					return uint16(x)
				case types.Uint32:
					return uint32(x)
				case types.Uint64:
					return uint64(x)
				case types.Uintptr:
					return uintptr(x)
				case types.Float32:
					return float32(x)
				case types.Float64:
					return float64(x)
				}

			case uint64: // unsigned integer -> numeric?
				switch kind {
				case types.Int:
					return int(x)
				case types.Int8:
					return int8(x)
				case types.Int16:
					return int16(x)
				case types.Int32:
					return int32(x)
				case types.Int64:
					return int64(x)
				case types.Uint:
					return uint(x)
				case types.Uint8:
					return uint8(x)
				case types.Uint16:
					return uint16(x)
				case types.Uint32:
					return uint32(x)
				case types.Uint64:
					return uint64(x)
				case types.Uintptr:
					return uintptr(x)
				case types.Float32:
					return float32(x)
				case types.Float64:
					return float64(x)
				}

			case float64: // floating point -> numeric?
				switch kind {
				case types.Int:
					return int(x)
				case types.Int8:
					return int8(x)
				case types.Int16:
					return int16(x)
				case types.Int32:
					return int32(x)
				case types.Int64:
					return int64(x)
				case types.Uint:
					return uint(x)
				case types.Uint8:
					return uint8(x)
				case types.Uint16:
					return uint16(x)
				case types.Uint32:
					return uint32(x)
				case types.Uint64:
					return uint64(x)
				case types.Uintptr:
					return uintptr(x)
				case types.Float32:
					return float32(x)
				case types.Float64:
					return float64(x)
				}
			}
		}
	}

	panic(fmt.Sprintf("unsupported conversion: %s  -> %s, dynamic type %T", t_src, t_dst, x))
}

// sliceToArrayPointer converts the value x of type slice to type t_dst
// a pointer to array and returns the result.
func sliceToArrayPointer(t_dst, t_src types.Type, x value) value {
	if _, ok := t_src.Underlying().(*types.Slice); ok {
		if ptr, ok := t_dst.Underlying().(*types.Pointer); ok {
			if arr, ok := ptr.Elem().Underlying().(*types.Array); ok {
				x := x.([]value)
				if arr.Len() > int64(len(x)) {
					panic("array length is greater than slice length")
				}
				if x == nil {
					return zero(t_dst)
				}
				v := value(array(x[:arr.Len()]))
				return &v
			}
		}
	}

	panic(fmt.Sprintf("unsupported conversion: %s  -> %s, dynamic type %T", t_src, t_dst, x))
}

// checkInterface checks that the method set of x implements the
// interface itype.
// On success it returns "", on failure, an error message.
func checkInterface(i *interpreter, itype *types.Interface, x iface) string {
	if meth, _ := types.MissingMethod(x.t, itype, true); meth != nil {
		return fmt.Sprintf("interface conversion: %v is not %v: missing method %s",
			x.t, itype, meth.Name())
	}
	return "" // ok
}

func foldLeft(op func(value, value) value, args []value) value {
	x := args[0]
	for _, arg := range args[1:] {
		x = op(x, arg)
	}
	return x
}

func min(x, y value) value {
	switch x := x.(type) {
	case float32:
		return fmin(x, y.(float32))
	case float64:
		return fmin(x, y.(float64))
	}

	// return (y < x) ? y : x
	if truthOf(binop(token.LSS, nil, y, x), x, y) {
		return y
	}
	return x
}

func max(x, y value) value {
	switch x := x.(type) {
	case float32:
		return fmax(x, y.(float32))
	case float64:
		return fmax(x, y.(float64))
	}

	// return (y > x) ? y : x
	if truthOf(binop(token.GTR, nil, y, x), x, y) {
		return y
	}
	return x
}

// copied from $GOROOT/src/runtime/minmax.go

type floaty interface{ ~float32 | ~float64 }

func fmin[F floaty](x, y F) F {
	if y != y || y < x {
		return y
	}
	if x != x || x < y || x != 0 {
		return x
	}
	// x and y are both ±0
	// if either is -0, return -0; else return +0
	return forbits(x, y)
}

func fmax[F floaty](x, y F) F {
	if y != y || y > x {
		return y
	}
	if x != x || x > y || x != 0 {
		return x
	}
	// x and y are both ±0
	// if both are -0, return -0; else return +0
	return fandbits(x, y)
}

func forbits[F floaty](x, y F) F {
	switch unsafe.Sizeof(x) {
	case 4:
		*(*uint32)(unsafe.Pointer(&x)) |= *(*uint32)(unsafe.Pointer(&y))
	case 8:
		*(*uint64)(unsafe.Pointer(&x)) |= *(*uint64)(unsafe.Pointer(&y))
	}
	return x
}

func fandbits[F floaty](x, y F) F {
	switch unsafe.Sizeof(x) {
	case 4:
		*(*uint32)(unsafe.Pointer(&x)) &= *(*uint32)(unsafe.Pointer(&y))
	case 8:
		*(*uint64)(unsafe.Pointer(&x)) &= *(*uint64)(unsafe.Pointer(&y))
	}
	return x
}

// zeroLike returns the zero value with the same dynamic shape as v.
func zeroLike(v value) value {
	switch v := v.(type) {
	case bool:
		return false
	case string, sstr:
		return ""
	case sym:
		if v.k == types.Bool {
			return false
		}
		return fromBits(v.k, 0)
	case structure:
		r := make(structure, len(v))
		for k := range v {
			r[k] = zeroLike(v[k])
		}
		return r
	case array:
		r := make(array, len(v))
		for k := range v {
			r[k] = zeroLike(v[k])
		}
		return r
	case *value:
		return (*value)(nil)
	case iface:
		return iface{}
	case []value:
		return []value(nil)
	case map[value]value:
		return map[value]value(nil)
	case *hashmap:
		return (*hashmap)(nil)
	case *vchan:
		return (*vchan)(nil)
	case *ssa.Function, *closure:
		return (*ssa.Function)(nil)
	}
	if k := kindOfValue(v); k != types.Invalid {
		return fromBits(k, 0)
	}
	return v
}
