package interp

// Strings with symbolic bytes: concrete length, each element a uint8 or a
// sym of kind Uint8.

import (
	"fmt"
	"go/token"
	"go/types"
)

type sstr struct {
	b []value
}

func isStr(x value) bool {
	switch x.(type) {
	case string, sstr:
		return true
	}
	return false
}

// mkStr builds a string value from bytes, folding to a Go string when all
// bytes are concrete.
func mkStr(b []value) value {
	for _, e := range b {
		if _, ok := e.(sym); ok {
			c := make([]value, len(b))
			copy(c, b)
			return sstr{c}
		}
	}
	bs := make([]byte, len(b))
	for i, e := range b {
		bs[i] = e.(uint8)
	}
	return string(bs)
}

func strBytes(x value) []value {
	switch x := x.(type) {
	case string:
		r := make([]value, len(x))
		for i := 0; i < len(x); i++ {
			r[i] = x[i]
		}
		return r
	case sstr:
		return x.b
	}
	panic(fmt.Sprintf("strBytes(%T)", x))
}

func strLen(x value) int {
	switch x := x.(type) {
	case string:
		return len(x)
	case sstr:
		return len(x.b)
	}
	panic(fmt.Sprintf("strLen(%T)", x))
}

// ownerOf finds the interpreter that owns a symbolic value.
func ownerOf(xs ...value) *interpreter {
	for _, x := range xs {
		switch x := x.(type) {
		case sym:
			return x.t.tt.owner
		case sstr:
			for _, e := range x.b {
				if s, ok := e.(sym); ok {
					return s.t.tt.owner
				}
			}
		}
	}
	return nil
}

// bytesEqTerm returns the term "a == b" for equal-length byte sequences.
func (i *interpreter) bytesEqTerm(a, b []value) *term {
	tt := i.ps.tt
	r := tt.mkBool(true)
	for k := range a {
		_, sa := a[k].(sym)
		_, sb := b[k].(sym)
		if !sa && !sb {
			if a[k].(uint8) != b[k].(uint8) {
				return tt.mkBool(false)
			}
			continue
		}
		r = tt.and(r, tt.eq(i.termOf(a[k]), i.termOf(b[k])))
	}
	return r
}

// bytesLtTerm returns the term "a < b" (lexicographic, bytes unsigned).
func (i *interpreter) bytesLtTerm(a, b []value) *term {
	tt := i.ps.tt
	// from the end: lt_k = a[k] < b[k] || (a[k]==b[k] && lt_{k+1}); base: len(a) < len(b)
	n := len(a)
	if len(b) < n {
		n = len(b)
	}
	r := tt.mkBool(len(a) < len(b))
	for k := n - 1; k >= 0; k-- {
		ak, bk := i.termOf(a[k]), i.termOf(b[k])
		var lt, eq *term
		if ak.isConst && bk.isConst {
			lt, eq = tt.mkBool(ak.cv < bk.cv), tt.mkBool(ak.cv == bk.cv)
		} else {
			lt, eq = tt.mk("bvult", boolSort, ak, bk), tt.eq(ak, bk)
		}
		r = tt.or(lt, tt.and(eq, r))
	}
	return r
}

func (i *interpreter) strBinop(op token.Token, x, y value) value {
	a, b := strBytes(x), strBytes(y)
	tt := i.ps.tt
	switch op {
	case token.ADD:
		r := make([]value, 0, len(a)+len(b))
		r = append(r, a...)
		r = append(r, b...)
		return mkStr(r)
	case token.EQL, token.NEQ:
		var t *term
		if len(a) != len(b) {
			t = tt.mkBool(false)
		} else {
			t = i.bytesEqTerm(a, b)
		}
		if op == token.NEQ {
			t = tt.not(t)
		}
		return mkSym(t, types.Bool)
	case token.LSS:
		return mkSym(i.bytesLtTerm(a, b), types.Bool)
	case token.GTR:
		return mkSym(i.bytesLtTerm(b, a), types.Bool)
	case token.LEQ:
		return mkSym(tt.not(i.bytesLtTerm(b, a)), types.Bool)
	case token.GEQ:
		return mkSym(tt.not(i.bytesLtTerm(a, b)), types.Bool)
	}
	i.unsupported("string op %s on symbolic strings", op)
	return nil
}

// concretizeStr forks until every byte of s is concrete.
func (i *interpreter) concretizeStr(s value, why string) string {
	switch s := s.(type) {
	case string:
		return s
	case sstr:
		bs := make([]byte, len(s.b))
		for k, e := range s.b {
			switch e := e.(type) {
			case uint8:
				bs[k] = e
			case sym:
				bs[k] = byte(i.concretize(e.t, why))
			}
		}
		return string(bs)
	}
	panic(fmt.Sprintf("concretizeStr(%T)", s))
}

// concretizeInt forks over the values of a symbolic integer and returns a
// concrete value of the same Go kind.
func (i *interpreter) concretizeInt(x value, why string) value {
	if s, ok := x.(sym); ok {
		if s.k == types.Bool {
			return i.decide(s.t)
		}
		if kindIsFloat(s.k) {
			i.unsupported("concretisation of a symbolic float (%s)", why)
		}
		return fromBits(s.k, i.concretize(s.t, why))
	}
	return x
}

// symIndex resolves a possibly symbolic index against length n: out-of-range
// values fork into a runtime panic, in-range values are concretised.
func (i *interpreter) symIndex(idx value, n int, why string) int {
	s, ok := idx.(sym)
	if !ok {
		return int(asInt64(idx))
	}
	tt := i.ps.tt
	oob := tt.oobTerm(s, n)
	if i.decide(oob) {
		panic(runtimeErrorText(fmt.Sprintf("index out of range [symbolic] with length %d", n)))
	}
	v := i.concretize(s.t, why)
	return int(asInt64(fromBits(s.k, v)))
}

// selectByte returns b[idx] for a symbolic in-range index as an ite chain
// (no forking beyond the bounds check).
func (i *interpreter) selectElem(elems []value, idx sym, k types.BasicKind) value {
	tt := i.ps.tt
	n := len(elems)
	w := idx.t.sort.w
	oob := tt.oobTerm(idx, n)
	if i.decide(oob) {
		panic(runtimeErrorText(fmt.Sprintf("index out of range [symbolic] with length %d", n)))
	}
	r := i.termOf(elems[n-1])
	for j := n - 2; j >= 0; j-- {
		r = tt.ite(tt.eq(idx.t, tt.mkBV(uint64(j), w)), i.termOf(elems[j]), r)
	}
	return mkSym(r, k)
}

// ---- range over string with symbolic bytes ----

type sstrIter struct {
	i   *interpreter
	b   []value
	pos int
}

func (it *sstrIter) next() tuple {
	okv := make(tuple, 3)
	if it.pos >= len(it.b) {
		okv[0] = false
		return okv
	}
	r, n := it.i.decodeRune(it.b[it.pos:])
	okv[0] = true
	okv[1] = it.pos
	okv[2] = r
	it.pos += n
	return okv
}

// decodeRune mirrors unicode/utf8.DecodeRune over possibly symbolic bytes,
// forking on the byte classes.
func (i *interpreter) decodeRune(b []value) (value, int) {
	tt := i.ps.tt
	b0 := b[0]
	s0, ok := b0.(sym)
	if !ok {
		// concrete lead byte, maybe symbolic continuation bytes
		if b0.(uint8) < 0x80 {
			return int32(b0.(uint8)), 1
		}
	}
	t0 := i.termOf(b0)
	c8 := func(v uint64) *term { return tt.mkBV(v, 8) }
	lt := func(t *term, v uint64) bool { return i.decide(tt.mk("bvult", boolSort, t, c8(v))) }
	_ = s0
	if lt(t0, 0x80) {
		return mkSym(tt.mkP("zero_extend", bvSort(32), 24, 0, t0), types.Int32), 1
	}
	const runeError = int32(0xFFFD)
	if lt(t0, 0xC2) {
		return runeError, 1
	}
	inRange := func(t *term, lo, hi uint64) bool {
		return i.decide(tt.and(tt.mk("bvuge", boolSort, t, c8(lo)), tt.mk("bvule", boolSort, t, c8(hi))))
	}
	ext := func(t *term, mask uint64) *term {
		return tt.mkP("zero_extend", bvSort(32), 24, 0, tt.mk("bvand", bvSort(8), t, c8(mask)))
	}
	shl := func(t *term, n uint64) *term { return tt.mk("bvshl", bvSort(32), t, tt.mkBV(n, 32)) }
	or := func(a, b *term) *term { return tt.mk("bvor", bvSort(32), a, b) }
	if lt(t0, 0xE0) { // 2 bytes
		if len(b) < 2 {
			return runeError, 1
		}
		t1 := i.termOf(b[1])
		if !inRange(t1, 0x80, 0xBF) {
			return runeError, 1
		}
		return mkSym(or(shl(ext(t0, 0x1F), 6), ext(t1, 0x3F)), types.Int32), 2
	}
	if lt(t0, 0xF0) { // 3 bytes
		if len(b) < 2 {
			return runeError, 1
		}
		t1 := i.termOf(b[1])
		lo, hi := uint64(0x80), uint64(0xBF)
		if i.decide(tt.eq(t0, c8(0xE0))) {
			lo = 0xA0
		} else if i.decide(tt.eq(t0, c8(0xED))) {
			hi = 0x9F
		}
		if !inRange(t1, lo, hi) {
			return runeError, 1
		}
		if len(b) < 3 {
			return runeError, 1
		}
		t2 := i.termOf(b[2])
		if !inRange(t2, 0x80, 0xBF) {
			return runeError, 1
		}
		return mkSym(or(or(shl(ext(t0, 0x0F), 12), shl(ext(t1, 0x3F), 6)), ext(t2, 0x3F)), types.Int32), 3
	}
	if lt(t0, 0xF5) { // 4 bytes
		if len(b) < 2 {
			return runeError, 1
		}
		t1 := i.termOf(b[1])
		lo, hi := uint64(0x80), uint64(0xBF)
		if i.decide(tt.eq(t0, c8(0xF0))) {
			lo = 0x90
		} else if i.decide(tt.eq(t0, c8(0xF4))) {
			hi = 0x8F
		}
		if !inRange(t1, lo, hi) {
			return runeError, 1
		}
		if len(b) < 4 {
			return runeError, 1
		}
		t2, t3 := i.termOf(b[2]), i.termOf(b[3])
		if !inRange(t2, 0x80, 0xBF) || !inRange(t3, 0x80, 0xBF) {
			return runeError, 1
		}
		return mkSym(or(or(or(shl(ext(t0, 0x07), 18), shl(ext(t1, 0x3F), 12)), shl(ext(t2, 0x3F), 6)), ext(t3, 0x3F)), types.Int32), 4
	}
	return runeError, 1
}

// encodeRune is string(rune) / utf8.AppendRune for a possibly symbolic rune.
func (i *interpreter) encodeRune(r value) []value {
	s, ok := r.(sym)
	if !ok {
		return strBytes(string(rune(asInt64(r))))
	}
	tt := i.ps.tt
	t := tt.resizeBV(s.t, kindSigned(s.k), 32)
	if i.decide(tt.mk("bvult", boolSort, t, tt.mkBV(0x80, 32))) {
		return []value{mkSym(tt.mkP("extract", bvSort(8), 7, 0, t), types.Uint8)}
	}
	// non-ASCII symbolic rune: concretise
	v := i.concretize(t, "rune to encode")
	return strBytes(string(rune(int32(uint32(v)))))
}

// oobTerm is "idx is not a valid index into a sequence of length n".
func (tt *termTable) oobTerm(idx sym, n int) *term {
	w := idx.t.sort.w
	if kindSigned(idx.k) {
		neg := tt.mk("bvslt", boolSort, idx.t, tt.mkBV(0, w))
		if w < 64 && uint64(n) >= uint64(1)<<uint(w-1) {
			return neg // every non-negative value of this width is below n
		}
		return tt.or(neg, tt.mk("bvsge", boolSort, idx.t, tt.mkBV(uint64(n), w)))
	}
	if w < 64 && uint64(n) >= uint64(1)<<uint(w) {
		return tt.mkBool(false)
	}
	return tt.mk("bvuge", boolSort, idx.t, tt.mkBV(uint64(n), w))
}
