#!/usr/bin/env python3
"""Writes /verif/MANIFEST.json from the table below (kept here so that the manifest stays consistent)."""
import json
CHECKS = {
 "C10": dict(
   text="Bounded model checking of the real generic code: every one of the 240 instantiations safecast.To*[S] (12 source kinds x 10 targets, plain and named source types) is executed symbolically from go/ssa with the source value a fully symbolic bit-vector / IEEE float; z3 shows result == saturating reference for ALL values of the source type (not boundary samples), plus NaN no-panic and (thorough) 2-safety monotonicity. No loops, so the bound is the type width itself.",
   note="Trusts go/ssa lowering, the engine's operator encoding (validated every run by replaying solver models through the native build), z3, and the amd64 model of out-of-range float->int conversions.",
   technique="symbolic execution of go/ssa + SMT (QF_BV/FP) per instantiation, native replay of models",
   design="5/C10"),
}
NA = {}
def main():
    checks=[]
    for pid in sorted(CHECKS):
        c=CHECKS[pid]
        checks.append({
          "property_id": pid,
          "quick_cmd": f"./check {pid} quick",
          "thorough_cmd": f"./check {pid} thorough",
          "evidence_file": f"/verif/evidence/{pid}.json",
          "replay_cmd_template": "./check --replay {path}",
          "engine": "gosym",
          "level_claimed": {"category": "model_checking", "text": c["text"], "design_ref": c["design"]},
          "level_note": c["note"],
          "technique": c["technique"],
        })
    all_ids=[f"C{n:02d}" for n in range(1,21)]
    na=[]
    for pid in all_ids:
        if pid in CHECKS: continue
        na.append({"property_id": pid, "reason": NA.get(pid, "check not built yet in this revision (see DESIGN.md section 7, build order); no claim is made")})
    m={
      "version": 1,
      "setup_cmd": "./setup.sh",
      "hooks": {
        "guard": "verif",
        "enable": "no in-repo hooks: harnesses are injected with go/packages overlays (engine) and `go test -overlay` (native replay); nothing under /repo is guarded",
        "baseline_off_cmd": "for m in $(cat /w/out/gomods.txt); do MF=$(cd /repo/$m && . /w/out/goenv.sh && gomodflag); (cd /repo/$m && go test $MF -json -vet=off -count=1 -timeout 25m ./...); done",
        "source_commits": [],
        "add_only": True
      },
      "engines": [{"name":"gosym","path":"/verif/engine","serves_properties":sorted(CHECKS),"kind_free_text":"symbolic executor for go/ssa (fork of x/tools go/ssa/interp with SMT-term values), one z3 -in per worker, DFS by re-execution, native replay of every model"}],
      "checks": checks,
      "not_applicable": na,
      "notes": "exit 0 = held within stated bounds; exit 1 + VIOLATION line = natively confirmed counterexample; exit 2 = inconclusive (bound exceeded, solver unknown, unsupported construct, encoding mismatch) and is never a pass. Fixed defects are recorded in known_findings.json."
    }
    json.dump(m, open("/verif/MANIFEST.json","w"), indent=1)
main()
