#!/usr/bin/env python3
"""Writes /verif/MANIFEST.json from the table below (kept here so that the manifest stays consistent)."""
import json
CHECKS = {
 "C10": dict(
   text="Bounded model checking of the real generic code: every one of the 240 instantiations safecast.To*[S] (12 source kinds x 10 targets, plain and named source types) is executed symbolically from go/ssa with the source value a fully symbolic bit-vector / IEEE float; z3 shows result == saturating reference for ALL values of the source type (not boundary samples), plus NaN no-panic and (thorough) 2-safety monotonicity. No loops, so the bound is the type width itself.",
   note="Trusts go/ssa lowering, the engine's operator encoding (validated every run by replaying solver models through the native build), z3, and the amd64 model of out-of-range float->int conversions.",
   technique="symbolic execution of go/ssa + SMT (QF_BV/FP) per instantiation, native replay of models",
   design="5/C10"),

 "C18": dict(
   text="Bounded model checking of the real subprocess code from go/ssa. (1) The stream-to-logger adapter (logStreamer.Write): a stream of n<=5 (thorough 7) fully symbolic bytes written in 2 (and 3) chunks at every offset; z3 decides, for all byte values, that Write returns (len,nil), that the concatenated messages equal the stream minus newlines, that streams are not mixed, and that messages are exactly the non-empty lines -- the last fails inside the recorded known-finding region (chunk boundary strictly inside a line) and is proved outside it. (2) Whole Execute / Output runs (real Execute, monitoring goroutine, messaging, streamers, process-error conversion, combined + string loggers) over a scripted child of 0..2 (thorough 3) writes to either stream in 4 shapes, exit status 0 / 1 / {2,126,127,255} / death by signal, context live or already cancelled: Execute returns nil exactly for status 0 and a context kind when cancelled; the start message is logged first, exactly one success / failure message last and on the right stream, the child's non-empty lines in between, complete and in order per stream; Output returns exactly those lines; a context cancelled while the child runs (explored with one preemption between Execute and the monitoring goroutine) yields an error, the child's lines and exactly one end message, the failure message.",
   note="(*os/exec.Cmd).Run is replaced under the engine by a harness function that plays the child's script into the command's real writers; natively the same script is a real `sh -c` child and sampled paths (12 quick / 48 thorough) are compared against it, so real pipes and exit statuses are exercised on samples only. Process groups and what happens to the child's descendants (C05), and volumes beyond the bound are outside. logs.Loggers is a recording double.",
   technique="symbolic execution of go/ssa + SMT (QF_BV) over symbolic byte strings and scripted children, native replay against real child processes",
   design="5/C18"),
 "C19": dict(
   text="Bounded exhaustive symbolic exploration of the real paginators (AbstractPaginator, dynamic, static, stream; real context, cancel store, atomic, virtual clock): every partition of a collection into 1..3 pages of 0..2 items, every script of <=3 (thorough 5) HasNext/GetNext/Stop/Close/cancel operations followed by a drain, constructor failures, a transient fetch failure at every page, and stream paginators with future pages and DryUp at every point; assertions: items exactly once in order, HasNext idempotent and exact, nothing after stop, failures reported.",
   note="Inputs of this property are finite structures, so paths are decided mostly by concrete branching; the solver only confirms path feasibility. Page/iterator objects are harness doubles; time is a virtual clock.",
   technique="symbolic execution of go/ssa with DFS over free choices (bounded model checking), native replay",
   design="5/C19"),
 "C20": dict(
   text="Bounded model checking of hashingAlgo.CalculateWithContext/Calculate/CalculateStringHash with the whole safeio/contextio/io.Copy chain executed from real source: histories of 1..2 (thorough 3) calculations on one hasher, each with 0..2 (3) symbolic content bytes, every chunking of the reader, and outcome success / read failure at byte k / cancellation at byte k / a string hash through CalculateStringHash on the same hasher; z3 decides that every successful calculation's digest is the digest of exactly its own content whatever preceded it.",
   note="The compression function is abstracted by an injective recording hash.Hash double (digest = bytes since last Reset), which makes the claim algorithm-independent; the real MD5/SHA/BLAKE2/xxhash/murmur code is not encoded.",
   technique="symbolic execution of go/ssa + SMT (QF_BV), native replay",
   design="5/C20"),

 "C11": dict(
   text="Bounded model checking of the real commonerrors constructors and (de)serialisation: for each of the 30 kinds, messages of 0..1 (thorough 2) fully symbolic bytes optionally followed by another kind's name, constructor chains of depth 1..2 (3), cancellation/deadline causes (plain, pre-converted, and already wrapped one level), joins of 1..3 errors, and the filesystem error converter on 23 backend conditions (plain and wrapped): z3 decides that Any/errors.Is recognise the kind, that a context cause is never reclassified, that Deserialise(Serialise(e)) keeps the kind(s) and -- outside the recorded known-finding region (nested %w target) -- the reason up to whitespace around colons.",
   note="fmt.Errorf/Sprintf and errors.Is/As are engine models that build the same *fmt.wrapError structures and call the interpreted Is/Unwrap/Error methods. The filesystem converter is covered here (one stable kind per backend condition, idempotent), the I/O converter by C09; the process error converter is not covered.",
   technique="symbolic execution of go/ssa + SMT (QF_BV) over symbolic strings, native replay",
   design="5/C11"),
 "C14": dict(
   text="Bounded model checking of BackOffPolicyFactory and the three Apply methods together with the real retryablehttp.DefaultBackoff/LinearJitterBackoff and the real avast/retry-go loop behind retry.RetryIf: min/max fully symbolic 64-bit durations in [0,1000h], attempt number symbolic in [0,2^31] (constant, exponential), all 16 flag configurations; the solver (cvc5, cross-checked with z3 in the thorough tier) decides wait >= 0, constant = min, exponential in [min,max] and monotonic (2-safety), linear in [(n+1)min,(n+1)max], Retry-After seconds over all of int64 honoured exactly iff enabled on 429/503; and, over every script of attempt outcomes, at most the configured attempts, none after success/non-retriable/cancellation, nil iff some attempt succeeded.",
   note="Linear policy: attempt numbers and the jitter factor are explored value by value on a grid (symbolic float x symbolic 52-bit duration is not decided by any back end here). math.Pow(2,n) is built exactly from the exponent bits; the HTTP-date flavour of Retry-After and the retryable_client request loop are outside the claim.",
   technique="symbolic execution of go/ssa + SMT (QF_BVFP, cvc5 with z3 cross-check), native replay",
   design="5/C14"),

 "C02": dict(
   text="Two bounded model-checking harnesses over the real code. (1) Kernel: sanitiseZipExtractPath (with the real filepath.Join/Clean and strings code) on an entry name of 0..4 (thorough 6) FULLY symbolic bytes against 8 destination shapes: z3 decides that every accepted name resolves -- by an independent naive component-stack resolution -- inside the destination, that the returned path is that resolved location, that rejections carry the 'malicious' kind, and (completeness) that legal names are accepted outside two recorded known-finding regions. (2) Call sites: the real unzip over real archives (archive/zip writer and reader interpreted) of 1..2 entries named over a small alphabet, optionally with a nested archive (whose own name also ranges over the alphabet) in recursive mode, next to a sibling directory whose name extends the destination's, destination given with or without a trailing separator, on afero's real MemMapFs behind a recording wrapper: every mutating backend operation targets the destination or below, nothing outside changes, escaping entries are refused as malicious, handles are balanced. (3) Names that are not valid UTF-8 (over {'.','/','x',0xFE}, length <= 4, thorough 6) through the real charset detection and conversion into three destinations: no mutation outside the destination whatever the conversion makes of the name.",
   note="Lexical path semantics on Linux separators; the charset detector is statistical, so names that are not valid UTF-8 are covered for the stated alphabet and destinations only; symbolic links in the destination tree and the OS-backed filesystem are outside.",
   technique="symbolic execution of go/ssa + SMT (QF_BV) over symbolic byte strings; bounded enumeration for the call-site harness; native replay",
   design="5/C02"),
 "C03": dict(
   text="Bounded model checking of the real unzip/unzipZippedFile/unzipNestedZipFiles/newZipReader with the real archive/zip reader, safeio.CopyN chain and afero MemMapFs: the four limits are FULLY symbolic 64-bit values (sizes/count >= 0, depth any sign) plus the Recursive flag, over real generated archives of 1..2 (thorough 3) entries (files of 0/2 bytes, directories, depth 1 and 2, a nested archive, a non-archive with .zip name, a first file whose header declares size+-1). z3 decides for all limit values: success => files/total/per-file/depth on disk (independent walk) within the limits; an honest archive exceeding a limit is refused with the 'too large' kind; no handle ever writes beyond the per-file limit or the declared size; limits off => no refusal; handles balanced. The 'lying header must be an error' clause fails inside a recorded known-finding region (declared < actual) and holds outside it.",
   note="'Number of files' is read as regular files left on disk. Store method only (no deflate), nesting depth 1, at most 3 entries, in-memory backend. Digits of symbolic integers inside formatted error messages are an opaque token.",
   technique="symbolic execution of go/ssa + SMT (QF_BV) with symbolic limits over enumerated real archives; native replay",
   design="5/C03"),

 "C01": dict(
   text="Bounded exploration of the real lock protocol (TryLock, Unlock, ReleaseIfStale/IsStale, the Rm/Exists/IsEmpty/CleanDir code beneath, real retry-go and context, heartbeat goroutines on a virtual clock) over a shared POSIX-style harness filesystem with atomic Mkdir, 3 contenders: sequential acquire/release histories (at most one holder, free lock acquired, held lock reported locked); one contender's complete acquire placed inside another's release before its k-th filesystem operation for EVERY k, followed by a third contender's acquire (no two holders; a release never destroys a later lock); the same inside a stale-lock takeover with override; no mutation by a failed acquire without override, nor by a failed BLOCKING acquire (LockWithTimeout against a held lock); a live holder's lock survives the k-th backend operation of a contender failing. Two known-finding regions are recorded and everything outside them is shown to hold.",
   note="Interleavings are limited to one preemption with an atomic interferer (natively replayable as a plain test); the harness filesystem's atomic Mkdir is the stated assumption about the backend. Not multi-process, not the OS filesystem.",
   technique="symbolic execution of go/ssa with DFS over interference positions (bounded model checking of the protocol), native replay",
   design="5/C01"),
 "C04": dict(
   text="Bounded exhaustive exploration of Rm / RemoveWithContext / CleanDirWithContext (real code incl. Exists/IsDir/IsEmpty/Ls) over EVERY tree of the shape /s/t/{a,b}[/x] whose entries are absent, files, read-only files, directories or symbolic links to an outside directory, an outside file, a nested outside directory, the tree root (loop) or nothing (dangling), on a harness filesystem with POSIX link semantics: nothing outside the tree changes; success means the tree (for CleanDir its content) is gone, dangling links included; handles balanced; siblings whose names extend the tree's name are untouched; with the k-th removal refused by the backend (k<=7) success is still only reported when the tree is gone; GarbageCollect of roots with up to two sub-directories and two thresholds removes exactly the old entries and never the root itself. Two known-finding regions (links followed into outside directories; links surviving a 'successful' removal) are recorded; outside them the assertions hold.",
   note="The POSIX link semantics is that of the harness filesystem vLinkFs (ELOOP after 3 hops); garbage collection is explored on the in-memory backend without links; pattern-protected removal with links is outside.",
   technique="symbolic execution of go/ssa with DFS over tree shapes (bounded model checking), native replay",
   design="5/C04"),
 "C07": dict(
   text="Bounded exploration with the REAL archive code interpreted end to end: Zip (archive/zip writer + compress/flate) then Unzip on afero's MemMapFs for every tree of up to 2 top-level entries (files with 3 contents, empty directory, directory with a file; names incl. leading/doubled dots): same relative paths, kinds and contents, file mtimes preserved, returned list names exactly the created entries, source untouched, handles balanced; the read-only zip and tar filesystem views (afero zipfs / tarfs + ReadOnlyFs, interpreted; the tar archive is written with the real archive/tar writer) expose the same paths/kinds/sizes/contents, refuse 7 kinds of mutating call without changing anything, and after Close fail with the 'failed condition' kind. Known-finding regions: names containing '..', Rm of an empty directory on the view, empty directories 'not existing' in the tar view.",
   note="Tiny contents only; unicode names and the OS filesystem are outside.",
   technique="symbolic execution of go/ssa (real archive/zip, flate, zipfs) with DFS over tree shapes, native replay",
   design="5/C07"),
 "C08": dict(
   text="Bounded exhaustive exploration of every exclusion-aware operation (walk, ls, recursive ls, tree listing, sub-directories, zip -- archive read back with the real reader --, copy, clean, remove; real regexp package interpreted) over EVERY tree of depth <= 2 on names {a,b} (thorough {a,b,ab}) and 0..1 (2) patterns from {a,b,ab,a.*,.*b,[ab],a.b,b.a} (the last two could only match across a path separator), against the statement's two-sided reference (full match of a component => protected with everything beneath; no component containing a match => must be processed); invalid patterns rejected with the 'invalid' kind before anything is touched; pattern pairs with inline flags or unbalanced groups behave as the two patterns separately (no leakage between patterns). Known-finding regions: protection lost at depth >= 2 in clean/remove; invalid pattern ignored on an empty directory; copy / pattern-aware removal matching a pattern across a path separator.",
   note="Patterns beyond the fixed set are outside; in-memory backend only.",
   technique="symbolic execution of go/ssa with DFS over trees x patterns x operations (bounded model checking), native replay",
   design="5/C08"),
 "C09": dict(
   text="(1) safeio.ReadAtMost / CopyDataWithContext / CopyNWithContext with the real io, bytes.Buffer and contextio code: source of 0..3 (thorough 4) FULLY symbolic bytes, every chunking (incl. a zero-length read), failure after k bytes, cancellation before the call or inside the j-th Read, failing/short writer, every max/n in [-1,L+1]: delivered bytes are an exact prefix, success delivers exactly min(L,max), CopyN transfers exactly n or errors, no Read after the context ended, no spurious failure, kinds cancelled/EOF. (2) all 32 exported context-accepting filesystem entry points that need no privileges with an already cancelled / expired context: the right kind, zero mutating backend operations, unchanged tree, balanced handles. (3) 17 of them (incl. unzip of an archive of 32 (48) consecutive directory entries) with the context cancelled after the j-th backend operation (j in 1..12) over 8 (12) files: at most 40 further backend operations whatever remains. (4) limited file reads refuse larger files as 'too large'.",
   note="Lengths up to 2^20 and real buffer boundaries, WriterTo/ReaderFrom fast paths and the OS filesystem are outside. One genuine defect (CopyToDirectoryWithContext) was found here and fixed.",
   technique="symbolic execution of go/ssa + SMT (QF_BV) on symbolic byte streams; DFS over scripts and entry points; native replay",
   design="5/C09"),
 "C17": dict(
   text="Bounded exploration of IsStale / areHeartBeatFilesAllStale / isStale / ReleaseIfStale / TryLock(override) and the real heartBeat goroutine on a virtual clock: while the holder lives, 1..3 (thorough 5) observations at instants up to ~33 periods never see the lock stale, never release or take it over; a holder dying at each of four points is reported stale after 2 periods + 2 ms and ReleaseIfStale + acquire then succeed; at the boundary (ages 0..500 ms of the last sign of life, heartbeat file present or not, directory age irrelevant) stale implies age > 2 periods and age >= 2 periods + 1 ms implies stale; a failing backend -- every operation, or any single one (k<=14) -- never makes a lock look stale; with every backend operation taking 1 or 3 ms of virtual time a live lock held for 25 (60) periods never looks stale; one transient failure of the heartbeat writer (k<=24) does not end the heartbeat.",
   note="Virtual time: scheduling latency is zero and filesystem latency is the injected 0/1/3 ms per operation, so 'live lock never stale' is claimed for an ideal scheduler only.",
   technique="symbolic execution of go/ssa on a cooperative scheduler with a virtual clock (bounded model checking), native replay",
   design="5/C17"),

 "C12": dict(
   text="Bounded model checking over SCHEDULES of the real RunActionWithTimeout, RunActionWithTimeoutAndContext/CancelStore (with the real context package), Parallelise and CancelFunctionStore on the engine's cooperative scheduler: every interleaving with at most 2 preemptions (1 for the context runner in the quick tier) at channel/select/lock/atomic/timer operations, both outcomes of selects with several ready cases, timers allowed to fire at any channel operation, action completing at {0,T-1,T,T+1,5T}, failing or not, honouring its stop signal at once or late, parent context live/cancelled before/during: the runner always returns (deadlock = violation), returns the action's own result or the timeout/cancelled kind only once the action saw its stop signal, the action's context is done on every exit; Parallelise invokes once per argument and returns the multiset or an invocation error; a Cancel invokes every function registered before it began; a store cancelled from outside while the action is in flight is reported as a cancellation; with every heap load/store a scheduling point, two concurrent registrations are both kept. One known-finding region (RunActionWithTimeout blocks when the timer case is taken after the action finished) is recorded.",
   note="Schedules are decision sequences of the engine (re-executable deterministically) but not natively replayable; sequentially consistent memory; real timer latency outside.",
   technique="symbolic execution of go/ssa on a cooperative scheduler, DFS over scheduling decisions with a preemption bound (bounded model checking)",
   design="5/C12"),
 "C13": dict(
   text="Bounded model checking over SCHEDULES of the library's own sinks and composites: the plain string logger (StringWriter through the real log.Logger) with two producers on the same or on the output and error streams, NewCombinedLoggers with Log || LogError, Log || Append and Append || Append, and a composite built from a caller-owned slice that the caller appends to afterwards: every interleaving with at most 2 preemptions at lock/atomic/channel operations and INSIDE every strings.Builder append and member append (modelled as non-atomic read-modify-write): every message reaches the sink exactly once and intact, composites deliver every message to every member exactly once, every appended member is kept, the composite owns its member list; a composite writer (MultipleWritersWithSource behind the real log.Logger) with members that fail, write short or fail once still offers every message to every member and closes them all. The library's logr adapter (the front of the zap / logrus / hclog / slog / file loggers), alone and as member of a composite, with SetLogSource || SetLogSource and SetLogSource || Log and every heap access a scheduling point: the source it reports and the source its messages carry agree, nothing is lost. The check found the RLock-for-a-write defect of StringWriter and the unsynchronised logger replacement of the logr adapter; both are fixed.",
   note="The third-party back ends behind the logr adapter (zap, logrus, hclog, slog), the diode ring buffer and the file/JSON writers are not encoded (the adapter runs over a sink double); memory is sequentially consistent; not natively replayable.",
   technique="symbolic execution of go/ssa on a cooperative scheduler, DFS over scheduling decisions with a preemption bound (bounded model checking)",
   design="5/C13"),

 "C16": dict(
   text="Bounded model checking of both shared-cache implementations (Store, Fetch, CleanEntry of the lock-based mutable cache and of the immutable cache) with everything beneath them executed from real source: TransferFiles/getHash, the real zip writer and reader (archive/zip, compress/flate), xxhash, the copy/move/remove code of the filesystem package, the real RemoteLockFile with its heartbeat goroutine and time-outs on a virtual clock, over afero's real MemMapFs shared by several clients. (1) Interrupted Store: a second Store is hit at its k-th backend operation for EVERY k by a single failure, a process stop, or a stop in the middle of a write; after stale-lock / old-version cleaning a Fetch by another client either fails or installs exactly one complete stored version, a Store that reported success is what the Fetch returns, and the sources are untouched. (2) Concurrent clients: another client's complete Fetch / Store / CleanEntry placed inside a Store, and a complete Store and/or CleanEntry placed inside a Fetch, before the k-th backend operation for every k: every successful Fetch installs exactly one complete version that had been stored. The check found two genuine defects, both fixed (Zip dropped the archive writer's Close error; a stale hash file survived a failed hash update) and records one known finding that only exists on the in-memory backend.",
   note="One preemption per interleaving with an atomic interferer (natively replayable); crash = nothing the client does afterwards has any effect, at the granularity of one backend call (a write may be half done). The operating-system backend, torn writes inside one call, more than one preemption and large packages are outside. UUID generation and the reflection-based configuration validation are stubbed under the engine; native replays use the real ones.",
   technique="symbolic execution of go/ssa with DFS over fault / preemption positions (bounded model checking), virtual clock, native replay",
   design="0.3/C16"),

 "C06": dict(
   text="Bounded exhaustive exploration of programs of 1 (thorough 1..2) filesystem-API calls -- MkDir, WriteFile, Rm, CleanDir, TouchTempFile, Copy, CopyToDirectory, Move, IsDir, Exists, Ls, ReadFile -- over the path alphabet {/a, /a/b, /a/b/c, /d, /d/e} from 6 initial trees (so that source = / parent of / inside the destination, missing/existing entries and file-versus-directory conflicts occur), real code on afero's real MemMapFs behind a recording wrapper: every call terminates (<= 400 backend operations), leaves no handle open, changes nothing but its destination (plus newly created ancestor directories; for Move also the source), a copy leaves its source untouched (contents, permissions and modification times), query calls change nothing and answer exactly what the tree says. Under faults (the k-th backend operation of a copy / write / read / listing / file move / directory move fails, rename possible or not): no handle stays open, the source of a copy is untouched, a move never loses a file (every source file is still at the source or has arrived at the destination). A copy that reports success has delivered the source (every source entry with its kind and content at the destination root -- the destination itself or, when that is a directory, the source's name inside it -- and everything else there unchanged: merge semantics). Seven known-finding regions are recorded (a directory copied onto a regular file reports success; copy into own subtree diverges; move into own subtree crashes the in-memory backend; entries created beneath a file on the in-memory backend; that backend left inconsistent after a conflicting call; copy of a file onto itself re-stamps it; the directory-move fallback deletes a source it could not read).",
   note="The second sentence of the property, exact answers of the query calls and -- of the first sentence -- the content delivered by a successful copy are claimed, on the in-memory backend: agreement of return values and resulting trees with a full reference model of cp -r / mv on BOTH backends is not claimed -- the OS backend cannot be executed symbolically and the doc comments leave Copy's destination resolution open.",
   technique="symbolic execution of go/ssa with DFS over programs x paths x initial trees (bounded model checking), native replay",
   design="5/C06"),
}
NA = {
 "C05": "the property is about operating-system process groups, signals and inherited pipes: that state lives in the kernel, not in Go code that could be encoded; the Go side (exec.CommandContext, Setpgid, a delayed kill) only configures kernel behaviour, so a symbolic execution would verify stubs of my own making",
 "C15": "configuration loading runs through viper, mapstructure, pflag and godotenv, i.e. deep reflection over arbitrary struct types and the process environment; the engine models only a sliver of reflect and modelling viper would check my model, not the code",
}
def main():
    checks=[]
    for pid in sorted(CHECKS):
        c=CHECKS[pid]
        checks.append({
          "property_id": pid,
          "quick_cmd": f"./check {pid} quick",
          "thorough_cmd": f"./check {pid} thorough",
          "evidence_file": f"/verif/evidence/{pid}.json",
          "replay_cmd_template": "./check --replay {path}",
          "engine": "gosym",
          "level_claimed": {"category": "model_checking", "text": c["text"], "design_ref": c["design"]},
          "level_note": c["note"],
          "technique": c["technique"],
        })
    all_ids=[f"C{n:02d}" for n in range(1,21)]
    na=[]
    for pid in all_ids:
        if pid in CHECKS: continue
        na.append({"property_id": pid, "reason": NA.get(pid, "check not built yet in this revision (see DESIGN.md section 7, build order); no claim is made")})
    m={
      "version": 1,
      "setup_cmd": "./setup.sh",
      "hooks": {
        "guard": "verif",
        "enable": "no in-repo hooks: harnesses are injected with go/packages overlays (engine) and `go test -overlay` (native replay); nothing under /repo is guarded",
        "baseline_off_cmd": "for m in $(cat /w/out/gomods.txt); do MF=$(cd /repo/$m && . /w/out/goenv.sh && gomodflag); (cd /repo/$m && go test $MF -json -vet=off -count=1 -timeout 25m ./...); done",
        "source_commits": [],
        "add_only": True
      },
      "engines": [{"name":"gosym","path":"/verif/engine","serves_properties":sorted(CHECKS),"kind_free_text":"symbolic executor for go/ssa (fork of x/tools go/ssa/interp with SMT-term values), one z3 -in per worker, DFS by re-execution, native replay of every model"}],
      "checks": checks,
      "not_applicable": na,
      "notes": "exit 0 = held within stated bounds; exit 1 + VIOLATION line = natively confirmed counterexample; exit 2 = inconclusive (bound exceeded, solver unknown, unsupported construct, encoding mismatch) and is never a pass. Fixed defects are recorded in known_findings.json."
    }
    json.dump(m, open("/verif/MANIFEST.json","w"), indent=1)
main()
