#!/bin/bash
# Re-runs every recorded seeded change against the check that is supposed to catch it
# (the command recorded in its meta.json) and reports the ones that are no longer caught.
# Applies each patch to the repository and reverts it straight afterwards; do not run on /repo
# while anything else reads /repo. To run beside other checks, work on scratch copies:
#   git -C /repo worktree add --detach /tmp/repo_seed HEAD
#   rsync -a --exclude .git --exclude out /verif/ /tmp/verif_seed/
#   VERIF_REPO=/tmp/repo_seed /tmp/verif_seed/tools/regress_seeds.sh [name prefix ...]
#   git -C /repo worktree remove --force /tmp/repo_seed; rm -rf /tmp/verif_seed
cd "$(dirname "$0")/.." || exit 3
repo=${VERIF_REPO:-/repo}
bad=0
for d in seeded/*/; do
  n=$(basename $d)
  [ -f $d/meta.json ] || continue
  if [ $# -gt 0 ]; then sel=0; for p in "$@"; do case $n in $p*) sel=1;; esac; done; [ $sel = 1 ] || continue; fi
  if python3 -c "import json,sys;sys.exit(0 if json.load(open('$d/meta.json')).get('superseded') else 1)"; then echo "$n: superseded (see meta.json)"; continue; fi
  cmd=$(python3 -c "import json;print(json.load(open('$d/meta.json'))['how_to_rerun'])")
  out=$($cmd 2>&1)
  rc=$(echo "$out" | grep -o "exit [0-9]*" | tail -1)
  echo "$n: $rc"
  if [ "$rc" != "exit 1" ]; then bad=$((bad+1)); echo "$out" | tail -5; fi
  git -C "$repo" status --short | grep -v date.txt
done
echo "seeds not caught: $bad"
