#!/bin/bash
# usage: tools/confirm_seed.sh <ID> <package dir relative to utils> [extra go test args for the existing suite]
# Confirms a seeded change produced in /tmp/wt_<ID> (its patch.diff + zz_demo_test.go): builds, the existing
# package tests behave the same with and without it, the demo test fails with it and passes without it.
# Then stores it under /verif/seeded/<ID>/. (No git stash: the stash is shared between worktrees.)
set -u
id=$1; pkg=$2; shift 2; extra="$*"
wt=/tmp/wt_$id
export GOTOOLCHAIN=local GOROOT=/root/go/pkg/mod/golang.org/toolchain@v0.0.1-go1.24.1.linux-amd64 GOFLAGS=-mod=mod GOPROXY=off; export PATH=$GOROOT/bin:$PATH
cd $wt/utils || exit 3
patch=$wt/patch.diff
[ -s $patch ] || { echo "no patch.diff"; exit 3; }
demo=$(git -C $wt status --porcelain | grep zz_demo_test.go | awk '{print $2}' | head -1)
[ -z "$demo" ] && { echo "no demo test found"; exit 3; }
demo_pkg=./$(dirname ${demo#utils/})
cp $wt/$demo /tmp/confirm_${id}_demo.go
# pristine tree + patch
git -C $wt checkout -q -- utils
git -C $wt apply $patch || { echo "patch.diff does not apply to HEAD"; exit 3; }
echo "patch touches: $(grep '^diff --git' $patch | awk '{print $3}' | tr '\n' ' ')"
go build ./... > /tmp/confirm_$id.build 2>&1 && echo "build: ok" || { echo "build: FAILED"; tail -5 /tmp/confirm_$id.build; }
rm -f $wt/$demo
go test -count=1 $extra ./$pkg/ > /tmp/confirm_$id.with 2>&1; rc_with=$?
git -C $wt checkout -q -- utils
go test -count=1 $extra ./$pkg/ > /tmp/confirm_$id.without 2>&1; rc_without=$?
fw=$(grep -- "^--- FAIL" /tmp/confirm_$id.with | sed 's/ (.*//' | sort | tr '\n' ' '); fo=$(grep -- "^--- FAIL" /tmp/confirm_$id.without | sed 's/ (.*//' | sort | tr '\n' ' ')
echo "existing tests with change: rc=$rc_with fails=[$fw]"
echo "existing tests without    : rc=$rc_without fails=[$fo]"
cp /tmp/confirm_${id}_demo.go $wt/$demo
go test -count=1 -run 'Demo|demo' $demo_pkg > /tmp/confirm_$id.demo_without 2>&1; d_without=$?
git -C $wt apply $patch
go test -count=1 -run 'Demo|demo' $demo_pkg > /tmp/confirm_$id.demo_with 2>&1; d_with=$?
echo "demo with change: rc=$d_with (want != 0); demo without: rc=$d_without (want 0)"
if [ "$fw" = "$fo" ] && [ $d_with -ne 0 ] && [ $d_without -eq 0 ]; then
  out=${SEED_NAME:-$id}; mkdir -p /verif/seeded/$out
  cp $patch /verif/seeded/$out/patch.diff
  cp $wt/$demo /verif/seeded/$out/zz_demo_test.go.txt
  [ -f $wt/NOTES.md ] && cp $wt/NOTES.md /verif/seeded/$out/NOTES.md
  echo "CONFIRMED -> /verif/seeded/$out/"
else
  echo "NOT CONFIRMED"
fi
