#!/bin/sh
# usage: tools/try_seed.sh <property id> <patch file> [tier]
# Applies a seeded change to the repository, runs the property's check, reverts the change.
# Prints the check's verdict (exit code and VIOLATION / KNOWN-FINDING / INCONCLUSIVE lines).
# The repository is /repo unless VERIF_REPO names a scratch worktree of it (then this
# copy of /verif should be a scratch copy too: evidence/ and out/ are rewritten).
id=$1; patch=$2; tier=${3:-quick}
repo=${VERIF_REPO:-/repo}
cd "$(dirname "$0")/.." || exit 3
if ! git -C "$repo" diff --quiet; then echo "try_seed: $repo has uncommitted changes, refusing" >&2; exit 3; fi
git -C "$repo" apply "$(realpath "$patch")" || { echo "try_seed: patch does not apply" >&2; exit 3; }
out=${TMPDIR:-/tmp}/seed_$id.$$.out
timeout 3000 ./check "$id" "$tier" > "$out" 2>&1
rc=$?
git -C "$repo" checkout -- .
echo "check $id $tier on seeded tree: exit $rc"
grep -E "^VIOLATION|INCONCLUSIVE|violation" "$out" | cut -c1-400 | head -12
rm -f "$out"
exit 0
