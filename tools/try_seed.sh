#!/bin/sh
# usage: tools/try_seed.sh <property id> <patch file> [tier]
# Applies a seeded change to /repo, runs the property's check, reverts the change.
# Prints the check's verdict (exit code and VIOLATION / KNOWN-FINDING / INCONCLUSIVE lines).
id=$1; patch=$2; tier=${3:-quick}
cd /verif
if ! git -C /repo diff --quiet; then echo "try_seed: /repo has uncommitted changes, refusing" >&2; exit 3; fi
git -C /repo apply "$(realpath "$patch")" || { echo "try_seed: patch does not apply" >&2; exit 3; }
timeout 3000 ./check "$id" "$tier" > /tmp/seed_$id.out 2>&1
rc=$?
git -C /repo checkout -- . 
echo "check $id $tier on seeded tree: exit $rc"
grep -E "^VIOLATION|INCONCLUSIVE|violation" /tmp/seed_$id.out | cut -c1-400 | head -12
exit 0
