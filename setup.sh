#!/bin/sh
# Builds the symbolic engine offline. Run once in /verif after a fresh restore.
set -e
cd "$(dirname "$0")"
. ./env.sh
mkdir -p bin evidence out
(cd engine && go build -o ../bin/gosym ./cmd/gosym)
echo "setup: built bin/gosym with $(go version)"
z3 --version
