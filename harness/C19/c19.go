package pagination

import (
	"context"
	"errors"
	"time"

	"github.com/ARM-software/golang-utils/utils/zz_verif/verif"
)

var errVerifPage = errors.New("verif: injected page failure")

// vBook is the collection: pages[i] holds the (globally numbered) items of page i.
type vBook struct {
	pages      [][]int
	nPresent   int // pages [0,nPresent) exist now; the rest are "future" pages of a stream
	failNext   int // fetching page index failNext fails once (-1: never)
	failIter   int // creating the iterator of page index failIter fails (-1: never)
	fetches    int
	futureSeen int
	idle       int       // the first `idle` requests for the future find no news yet
	onFuture   func(int) // called with the number of each request for the future
	onFetch    func(int) // called with the index of each page being fetched, while the fetch is in flight
}

type vPage struct {
	book  *vBook
	idx   int
	empty bool // a "no news yet" page of a stream: no items, position idx
}

type vIter struct {
	items []int
	pos   int
}

func (it *vIter) HasNext() bool { return it.pos < len(it.items) }
func (it *vIter) GetNext() (interface{}, error) {
	if it.pos >= len(it.items) {
		return nil, errVerifPage
	}
	v := it.items[it.pos]
	it.pos++
	return v, nil
}

func (p *vPage) HasNext() bool { return p.idx+1 < p.book.nPresent }
func (p *vPage) GetItemIterator() (IIterator, error) {
	if p.empty {
		return &vIter{}, nil
	}
	if p.idx == p.book.failIter {
		return nil, errVerifPage
	}
	return &vIter{items: p.book.pages[p.idx]}, nil
}
func (p *vPage) GetItemCount() (int64, error) { return int64(len(p.book.pages[p.idx])), nil }
func (p *vPage) GetNext(ctx context.Context) (IPage, error) {
	np, err := p.book.fetch(p.idx + 1)
	if err != nil {
		return nil, err
	}
	return np, nil
}

func (b *vBook) fetch(idx int) (*vPage, error) {
	b.fetches++
	if b.onFetch != nil {
		b.onFetch(idx)
	}
	if idx == b.failNext {
		b.failNext = -1 // transient failure
		return nil, errVerifPage
	}
	if idx >= b.nPresent {
		return nil, errVerifPage
	}
	return &vPage{book: b, idx: idx}, nil
}

// stream pages
type vStreamPage struct{ vPage }

// only the last page that exists so far carries the link to the future
func (p *vStreamPage) HasFuture() bool { return p.idx == p.book.nPresent-1 }
func (p *vStreamPage) GetNext(ctx context.Context) (IPage, error) {
	np, err := p.book.fetch(p.idx + 1)
	if err != nil {
		return nil, err
	}
	return &vStreamPage{*np}, nil
}
func (p *vStreamPage) GetFuture(ctx context.Context) (IStream, error) {
	// the future of the last present page: one more page becomes present, if any is left
	b := p.book
	if !p.HasFuture() {
		return nil, errVerifPage
	}
	b.futureSeen++
	if b.onFuture != nil {
		b.onFuture(b.futureSeen)
	}
	if b.futureSeen > b.idle && b.nPresent < len(b.pages) {
		b.nPresent++
		return &vStreamPage{vPage{book: b, idx: b.nPresent - 1}}, nil
	}
	// nothing new: an empty page standing for "no news yet"
	return &vStreamPage{vPage{book: b, idx: p.idx, empty: true}}, nil
}

func makeBook(maxPages, maxItems int) (*vBook, int) {
	np := verif.Len("pages", 1, maxPages)
	b := &vBook{failNext: -1, failIter: -1}
	n := 0
	for i := 0; i < np; i++ {
		c := verif.Len("count", 0, maxItems)
		var items []int
		for k := 0; k < c; k++ {
			items = append(items, n)
			n++
		}
		b.pages = append(b.pages, items)
	}
	b.nPresent = np
	return b, n
}

type genericPaginator interface {
	HasNext() bool
	GetNext() (interface{}, error)
	Stop() context.CancelFunc
	Close() error
}

// runScript drives p with a symbolic script of operations against the
// reference cursor and then drains it.
func runScript(p genericPaginator, total int, scriptLen int, parentCancel context.CancelFunc) {
	cursor := 0
	stopped := false
	steps := verif.Len("steps", 0, scriptLen)
	for s := 0; s < steps; s++ {
		nops := 3
		if parentCancel != nil {
			nops = 4
		}
		switch verif.Choice("op", nops) {
		case 0:
			verif.Assert("hasnext_matches_remaining", p.HasNext() == (cursor < total && !stopped))
		case 1:
			item, err := p.GetNext()
			if cursor < total && !stopped {
				verif.Assert("getnext_succeeds", err == nil)
				v, ok := item.(int)
				verif.Assert("in_order_exactly_once", ok && v == cursor)
				cursor++
			} else {
				verif.Assert("nothing_after_end_or_stop", err != nil)
			}
		case 2:
			if verif.Bool("close") {
				verif.Assume(p.Close() == nil) // precondition of this harness ("close_ok"), not a clause of the property
			} else {
				p.Stop()()
			}
			stopped = true
		case 3:
			parentCancel()
			stopped = true
		}
	}
	// drain
	for k := 0; k <= total+1; k++ {
		h1 := p.HasNext()
		h2 := p.HasNext()
		verif.Assert("hasnext_idempotent", h1 == h2)
		verif.Assert("hasnext_matches_remaining", h1 == (cursor < total && !stopped))
		if !h1 {
			break
		}
		item, err := p.GetNext()
		verif.Assert("getnext_succeeds", err == nil)
		v, ok := item.(int)
		verif.Assert("in_order_exactly_once", ok && v == cursor)
		cursor++
	}
	verif.Assert("all_items_yielded", stopped || cursor == total)
}

func bounds() (maxPages, maxItems, script int) {
	if verif.Tier() > 0 {
		return 3, 2, 5
	}
	return 3, 2, 3
}

// VerifC19_Dynamic: paginator over dynamic pages (pages know their successor).
func VerifC19_Dynamic() {
	mp, mi, sl := bounds()
	book, total := makeBook(mp, mi)
	ctx, cancel := context.WithCancel(context.Background())
	defer cancel()
	p, err := NewCollectionPaginator(ctx, func(context.Context) (IPage, error) {
		fp, e := book.fetch(0)
		if e != nil {
			return nil, e
		}
		return fp, nil
	})
	verif.Assume(err == nil && p != nil) // precondition of this harness ("constructor"), not a clause of the property
	runScript(p, total, sl, cancel)
}

// VerifC19_Static: paginator over static pages with an explicit fetch function.
func VerifC19_Static() {
	mp, mi, sl := bounds()
	book, total := makeBook(mp, mi)
	ctx, cancel := context.WithCancel(context.Background())
	defer cancel()
	p, err := NewStaticPagePaginator(ctx, func(context.Context) (IStaticPage, error) {
		fp, e := book.fetch(0)
		if e != nil {
			return nil, e
		}
		return fp, nil
	}, func(_ context.Context, cur IStaticPage) (IStaticPage, error) {
		np, e := book.fetch(cur.(*vPage).idx + 1)
		if e != nil {
			return nil, e
		}
		return np, nil
	})
	verif.Assume(err == nil && p != nil) // precondition of this harness ("constructor"), not a clause of the property
	runScript(p, total, sl, cancel)
}

// VerifC19_ConstructorFailures: a failing first-page fetch or a first page
// whose iterator cannot be created must surface as a non-nil error.
func VerifC19_ConstructorFailures() {
	book, _ := makeBook(2, 1)
	kind := verif.Choice("kind", 3)     // 0 dynamic, 1 static, 2 stream (static pages)
	failure := verif.Choice("failure", 2) // 0 first fetch fails, 1 iterator creation fails
	if failure == 0 {
		book.failNext = 0
	} else {
		book.failIter = 0
	}
	ctx := context.Background()
	var err error
	var isNil bool
	switch kind {
	case 0:
		var p IPaginator
		p, err = NewCollectionPaginator(ctx, func(context.Context) (IPage, error) {
			fp, e := book.fetch(0)
			if e != nil {
				return nil, e
			}
			return fp, nil
		})
		isNil = p == nil
	case 1:
		var p IPaginatorAndPageFetcher
		p, err = NewStaticPagePaginator(ctx, func(context.Context) (IStaticPage, error) {
			fp, e := book.fetch(0)
			if e != nil {
				return nil, e
			}
			return fp, nil
		}, func(_ context.Context, cur IStaticPage) (IStaticPage, error) { return nil, errVerifPage })
		isNil = p == nil
	case 2:
		var p IStreamPaginator
		p, err = NewStreamPaginator(ctx, time.Millisecond, time.Millisecond, func(context.Context) (IStream, error) {
			fp, e := book.fetch(0)
			if e != nil {
				return nil, e
			}
			return &vStreamPage{*fp}, nil
		})
		isNil = p == nil
	}
	verif.Observe("isNil", isNil)
	verif.Assert("constructor_failure_is_reported", err != nil)
}

// VerifC19_FetchFailure: a transient failure while fetching page k. Only
// prefix-ness is required: never a wrong item, and items keep their order.
func VerifC19_FetchFailure() {
	book, total := makeBook(3, 2)
	book.failNext = verif.Len("failAt", 1, 3)
	p, err := NewCollectionPaginator(context.Background(), func(context.Context) (IPage, error) {
		fp, e := book.fetch(0)
		if e != nil {
			return nil, e
		}
		return fp, nil
	})
	verif.Assume(err == nil && p != nil) // precondition of this harness ("constructor"), not a clause of the property
	cursor := 0
	useHasNext := verif.Bool("useHasNext")
	for k := 0; k < total+3; k++ {
		if useHasNext && !p.HasNext() {
			continue
		}
		item, err := p.GetNext()
		if err != nil {
			continue
		}
		v, ok := item.(int)
		verif.Assert("never_a_wrong_item", ok && v == cursor)
		cursor++
	}
	verif.Assert("no_more_than_everything", cursor <= total)
	// the failure was transient and every call is retried by the loop above
	verif.Assert("everything_after_retries", cursor == total)
}

// VerifC19_Stream: future pages keep coming until DryUp + grace period.
func VerifC19_Stream() {
	np := verif.Len("pages", 1, 3)
	present := verif.Len("present", 1, np)
	b := &vBook{failNext: -1, failIter: -1, nPresent: present}
	total := 0
	for i := 0; i < np; i++ {
		c := verif.Len("count", 0, 2)
		var items []int
		for k := 0; k < c; k++ {
			items = append(items, total)
			total++
		}
		b.pages = append(b.pages, items)
	}
	grace := 5 * time.Millisecond
	backoff := time.Millisecond
	ctx, cancel := context.WithCancel(context.Background())
	defer cancel()
	p, err := NewStreamPaginator(ctx, grace, backoff, func(context.Context) (IStream, error) {
		fp, e := b.fetch(0)
		if e != nil {
			return nil, e
		}
		return &vStreamPage{*fp}, nil
	})
	verif.Assume(err == nil && p != nil) // precondition of this harness ("constructor"), not a clause of the property
	dryAfter := verif.Len("dryAfter", 0, total)
	cursor := 0
	if dryAfter == 0 {
		verif.Assume(p.DryUp() == nil) // precondition of this harness ("dryup_ok"), not a clause of the property
	}
	// "GetNext without HasNext works": while items are still to come and the stream has not been told that it is
	// drying up, the caller may also ask for the next item straight away -- also across the link to a future page
	bare := verif.Bool("getNextWithoutHasNext")
	for k := 0; k <= total+1; k++ {
		if !(bare && cursor < total && !p.IsRunningDry()) {
			has := p.HasNext()
			if !has {
				break
			}
		}
		item, err := p.GetNext()
		verif.Assert("getnext_succeeds", err == nil)
		v, ok := item.(int)
		verif.Assert("in_order_exactly_once", ok && v == cursor)
		cursor++
		if cursor == dryAfter {
			verif.Assume(p.DryUp() == nil) // precondition of this harness ("dryup_ok"), not a clause of the property
		}
	}
	// the stream was told it is drying up at some point (dryAfter <= total), so
	// iteration ended; every page, present or future, was delivered before that
	verif.Assert("stream_yields_future_pages", cursor == total)
	verif.Assert("ended_only_when_dry", p.IsRunningDry())
	verif.Assert("no_more_after_grace", !p.HasNext())
}

// VerifC19_StreamIdleThenDry: the stream has no news for a while (longer than
// the grace period), is then told that it is drying up, and the last page
// arrives right after that, well within the grace period: it must still be
// delivered (the grace period runs from DryUp, not from the last item).
func VerifC19_StreamIdleThenDry() {
	grace := 5 * time.Millisecond
	backoff := time.Millisecond
	idle := verif.Len("idlePolls", 0, 12)
	b := &vBook{failNext: -1, failIter: -1, nPresent: 1, idle: idle}
	b.pages = [][]int{{0}, {1}}
	ctx, cancel := context.WithCancel(context.Background())
	defer cancel()
	p, err := NewStreamPaginator(ctx, grace, backoff, func(context.Context) (IStream, error) {
		fp, e := b.fetch(0)
		if e != nil {
			return nil, e
		}
		return &vStreamPage{*fp}, nil
	})
	verif.Assume(err == nil && p != nil) // precondition of this harness ("constructor"), not a clause of the property
	b.onFuture = func(n int) {
		if n == idle {
			_ = p.DryUp() // told while polling; the next request finds the last page
		}
	}
	if idle == 0 {
		_ = p.DryUp()
	}
	cursor := 0
	for k := 0; k < 4; k++ {
		if !p.HasNext() {
			break
		}
		item, err := p.GetNext()
		verif.Assert("getnext_succeeds", err == nil)
		v, ok := item.(int)
		verif.Assert("in_order_exactly_once", ok && v == cursor)
		cursor++
	}
	verif.Assert("page_arriving_within_the_grace_period_is_delivered", cursor == 2)
	verif.Assert("ended_only_when_dry", p.IsRunningDry())
}

// VerifC19_StoppedWhileFetching: Stop / Close / cancellation lands while the
// fetch of page j is in flight (after the fetcher has looked at its context):
// from then on nothing more is yielded, whether the caller asks HasNext first
// or calls GetNext directly.
func VerifC19_StoppedWhileFetching() {
	np := verif.Len("pages", 2, 3)
	b := &vBook{failNext: -1, failIter: -1, nPresent: np}
	total := 0
	for i := 0; i < np; i++ {
		c := verif.Len("count", 0, 2)
		var items []int
		for k := 0; k < c; k++ {
			items = append(items, total)
			total++
		}
		b.pages = append(b.pages, items)
	}
	ctx, cancel := context.WithCancel(context.Background())
	defer cancel()
	p, err := NewCollectionPaginator(ctx, func(context.Context) (IPage, error) {
		fp, e := b.fetch(0)
		if e != nil {
			return nil, e
		}
		return fp, nil
	})
	verif.Assume(err == nil && p != nil) // precondition of this harness ("constructor"), not a clause of the property
	stopAt := verif.Len("stopWhileFetchingPage", 1, np-1)
	how := verif.Choice("how", 3)
	stopped := false
	b.onFetch = func(idx int) {
		if idx == stopAt && !stopped {
			stopped = true
			switch how {
			case 0:
				p.Stop()()
			case 1:
				_ = p.Close()
			case 2:
				cancel()
			}
		}
	}
	bare := verif.Bool("getNextWithoutHasNext")
	yieldedAfterStop := 0
	for k := 0; k <= total+1; k++ {
		if !bare && !p.HasNext() {
			break
		}
		_, err := p.GetNext()
		if err != nil {
			break
		}
		if stopped {
			yieldedAfterStop++
		}
	}
	verif.Assume(stopped)
	verif.Assert("nothing_is_yielded_after_the_stop", yieldedAfterStop == 0)
	verif.Assert("no_next_after_the_stop", !p.HasNext())
}
