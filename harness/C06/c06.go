package filesystem

import (
	"context"
	"os"
	"syscall"

	"github.com/spf13/afero"

	"github.com/ARM-software/golang-utils/utils/zz_verif/verif"
)

var vC06Paths = []string{"/a", "/a/b", "/a/b/c", "/d", "/d/e"}

// initial trees: which of the paths exist and as what
func vC06Populate(fs FS) {
	switch verif.Choice("init", 6) {
	case 5: // a source tree and a destination that already holds part of a copy of it
		_ = fs.MkDir("/a/b")
		_ = fs.WriteFile("/a/b/c", []byte("c"), 0o644)
		_ = fs.MkDir("/d/a/b")
		_ = fs.WriteFile("/d/a/b/old", []byte("o"), 0o644)
	case 0: // empty
	case 1: // /a/b/c file chain
		_ = fs.MkDir("/a/b")
		_ = fs.WriteFile("/a/b/c", []byte("c"), 0o644)
	case 2: // /a file, /d dir
		_ = fs.WriteFile("/a", []byte("a"), 0o644)
		_ = fs.MkDir("/d")
	case 3: // /a dir with file b, /d/e file
		_ = fs.MkDir("/a")
		_ = fs.WriteFile("/a/b", []byte("b"), 0o644)
		_ = fs.MkDir("/d")
		_ = fs.WriteFile("/d/e", []byte("e"), 0o644)
	case 4: // deep dirs only
		_ = fs.MkDir("/a/b/c")
		_ = fs.MkDir("/d/e")
	}
}

func vIsUnder(root, p string) bool { return vPathInside(root, p) }

func vIsAncestorOf(anc, p string) bool { return anc != p && vPathInside(anc, p) }

type vC06Node struct {
	dir  bool
	data string
}

func vIndex(snap []vNode) map[string]vC06Node {
	m := map[string]vC06Node{}
	for _, n := range snap {
		m[n.path] = vC06Node{n.dir, n.data}
	}
	return m
}

// vChangesConfinedTo: every difference between the two trees lies under one of
// the allowed roots, or is a directory newly created as an ancestor of one.
func vChangesConfinedTo(before, after []vNode, allowed ...string) bool {
	b, a := vIndex(before), vIndex(after)
	ok := true
	check := func(p string) {
		for _, r := range allowed {
			if r != "" && vIsUnder(r, p) {
				return
			}
		}
		// a new directory that is an ancestor of an allowed root (mkdir -p semantics)
		if na, exists := a[p]; exists && na.dir {
			if _, was := b[p]; !was {
				for _, r := range allowed {
					if r != "" && vIsAncestorOf(p, r) {
						return
					}
				}
			}
		}
		ok = false
	}
	for p, nb := range b {
		if na, exists := a[p]; !exists || na != nb {
			check(p)
		}
	}
	for p := range a {
		if _, was := b[p]; !was {
			check(p)
		}
	}
	return ok
}

// vFileOnTheWay: a strict ancestor of p is a regular file (file-versus-directory conflict).
func vFileOnTheWay(snap []vNode, p string) bool {
	for _, n := range snap {
		if !n.dir && vIsAncestorOf(n.path, p) {
			return true
		}
	}
	return false
}

// vBackendConsistent: what a walk of the backend shows agrees with what direct
// access shows, for every path of the alphabet (afero's MemMapFs can be left
// with entries that are reachable by path but not listed, or with a directory
// that also carries file data, after calls with conflicting arguments).
func vBackendConsistent(inner afero.Fs, before []vNode) bool {
	snap := vSnapshot(inner, "/")
	idx := vIndex(snap)
	// nothing that used to be listed and no longer is can still be reached by its path
	for _, n := range before {
		if _, listed := idx[n.path]; !listed {
			if _, err := inner.Stat(n.path); err == nil {
				return false
			}
		}
	}
	// everything a directory lists can be reached by its path, as what it is listed as
	for _, n := range snap {
		fi, err := inner.Stat(n.path)
		if err != nil || fi.IsDir() != n.dir {
			return false
		}
	}
	for _, p := range vC06Paths {
		fi, err := inner.Stat(p)
		n, listed := idx[p]
		if (err == nil) != listed {
			return false
		}
		if listed && fi.IsDir() != n.dir {
			return false
		}
		if listed && n.dir {
			if b, err := afero.ReadFile(inner, p); err == nil && len(b) > 0 {
				return false
			}
		}
	}
	return true
}

func vSubtree(snap []vNode, root string) []vNode {
	var out []vNode
	for _, n := range snap {
		if vIsUnder(root, n.path) {
			out = append(out, n)
		}
	}
	return out
}

// vDelivered: the copy of the source tree src (rooted at p) is found at root r:
// every source entry is there with its kind and content, and everything else
// below r was there before, unchanged (cp -r merges into an existing directory).
func vDelivered(src []vNode, p string, before, after []vNode, r string) bool {
	b, a := vIndex(before), vIndex(after)
	srcIdx := map[string]vC06Node{}
	for _, n := range src {
		srcIdx[n.path[len(p):]] = vC06Node{n.dir, n.data}
	}
	for rel, n := range srcIdx {
		got, ok := a[r+rel]
		if !ok || got.dir != n.dir || (!n.dir && got.data != n.data) {
			return false
		}
	}
	for path, n := range a {
		if !vIsUnder(r, path) {
			continue
		}
		if _, fromSrc := srcIdx[path[len(r):]]; fromSrc {
			continue
		}
		if old, was := b[path]; !was || old != n {
			return false
		}
	}
	return true
}

// VerifC06_BetweenFilesystems: copy / move from one filesystem to another one of
// the same type (two separate in-memory backends), including the same path on
// both sides. The source side is never changed by a copy, a move never loses a
// file, a success has delivered the source, and every handle is closed on both
// sides.
func VerifC06_BetweenFilesystems() {
	recA, fsA := vNewFs()
	recB, fsB := vNewFs()
	vC06Populate(fsA)
	switch verif.Choice("destinationSide", 3) {
	case 1:
		_ = fsB.MkDir("/d")
	case 2: // part of the same tree is there already
		_ = fsB.MkDir("/a/b")
		_ = fsB.WriteFile("/a/b/old", []byte("o"), 0o644)
	}
	ctx := context.Background()
	p := vC06Paths[verif.Choice("p", len(vC06Paths))]
	q := vC06Paths[verif.Choice("q", len(vC06Paths))]
	move := verif.Bool("move")
	beforeA, beforeB := vSnapshot(recA.inner, "/"), vSnapshot(recB.inner, "/")
	srcBefore := vSubtree(beforeA, p)
	recA.reset()
	recB.reset()
	var err error
	if move {
		err = MoveBetweenFS(ctx, fsA, p, fsB, q)
	} else {
		err = CopyBetweenFS(ctx, fsA, p, fsB, q)
	}
	afterA, afterB := vSnapshot(recA.inner, "/"), vSnapshot(recB.inner, "/")
	verif.Assert("no_handle_left_open", recA.opens == recA.closes && recB.opens == recB.closes)
	verif.Observe("failed", err != nil)
	bi := vIndex(beforeB)
	_, exists := vIndex(beforeA)[p]
	// kind conflicts are exempt from the reference semantics (see VerifC06_Programs)
	kindConflict := vFileOnTheWay(beforeB, q)
	if dst, there := bi[q]; there && exists && dst.dir != vIndex(beforeA)[p].dir {
		kindConflict = true
	}
	if !move {
		verif.Assert("copy_leaves_its_source_untouched", vSameTree(beforeA, afterA))
	} else {
		verif.Assert("a_move_only_removes_its_source", vChangesConfinedTo(beforeA, afterA, p))
		// whatever the outcome, every file of the source is still on one side or the other
		if !kindConflict {
			for _, n := range srcBefore {
				if n.dir {
					continue
				}
				_, kept := vIndex(afterA)[n.path]
				_, atDest := vIndex(afterB)[q+n.path[len(p):]]
				_, underName := vIndex(afterB)[q+"/"+vlBaseName(p)+n.path[len(p):]]
				verif.Assert("a_move_never_loses_a_file", kept || atDest || underName)
			}
		}
	}
	if !kindConflict {
		verif.Assert("only_destination_changes", vChangesConfinedTo(beforeB, afterB, q))
	}
	if exists && err == nil && !kindConflict {
		verif.Assert("a_successful_copy_delivers_the_source",
			vDelivered(srcBefore, p, beforeB, afterB, q) || vDelivered(srcBefore, p, beforeB, afterB, q+"/"+vlBaseName(p)))
		if move {
			_, still := vIndex(afterA)[p]
			verif.Assert("a_successful_move_removes_the_source", !still)
		}
	}
}

// VerifC06_Programs: programs of 1..2 (thorough 3) calls over a small path alphabet.
func VerifC06_Programs() {
	rec, fs := vNewFs()
	vC06Populate(fs)
	ctx := context.Background()
	maxCalls := 1
	if verif.Tier() > 0 {
		maxCalls = 2
	}
	ncalls := verif.Len("calls", 1, maxCalls)
	budget := 400
	rec.before = func(op *vOp) error {
		budget--
		return nil
	}
	for c := 0; c < ncalls; c++ {
		before := vSnapshot(rec.inner, "/")
		rec.reset()
		budget = 400
		p := vC06Paths[verif.Choice("p", len(vC06Paths))]
		op := verif.Choice("op", 12)
		// conflicting arguments: a regular file where the call needs a directory, or a destination that exists already
		_, pExists := vIndex(before)[p]
		conflicting := vFileOnTheWay(before, p) || (pExists && op <= 1)
		switch op {
		case 0:
			_ = fs.MkDir(p)
			verif.AssertKnown("only_destination_changes", vChangesConfinedTo(before, vSnapshot(rec.inner, "/"), p),
				"KF-C06-memory-backend-creates-entries-beneath-a-file", vFileOnTheWay(before, p))
		case 1:
			_ = fs.WriteFile(p, []byte("w"), 0o644)
			verif.AssertKnown("only_destination_changes", vChangesConfinedTo(before, vSnapshot(rec.inner, "/"), p),
				"KF-C06-memory-backend-creates-entries-beneath-a-file", vFileOnTheWay(before, p))
		case 2:
			_ = fs.Rm(p)
			verif.Assert("only_destination_changes", vChangesConfinedTo(before, vSnapshot(rec.inner, "/"), p))
		case 3:
			_ = fs.CleanDir(p)
			verif.Assert("only_destination_changes", vChangesConfinedTo(before, vSnapshot(rec.inner, "/"), p))
		case 4:
			_, _ = fs.TouchTempFile("/", "x")
		case 5, 6, 7: // copy / copy to directory / move
			q := vC06Paths[verif.Choice("q", len(vC06Paths))]
			_, qExists := vIndex(before)[q]
			conflicting = conflicting || vFileOnTheWay(before, q) || qExists || (vIsUnder(p, q) && p != q)
			srcBefore := vSubtree(before, p)
			overlapping := vIsUnder(p, q) && p != q // destination strictly inside the source
			movingIntoItself := overlapping && op == 7
			verif.KnownCrashIf("KF-C06-move-into-own-subtree-crashes-the-memory-backend", &movingIntoItself)
			diverged := false
			rec.before = func(o *vOp) error {
				budget--
				if budget == 0 {
					diverged = true
					verif.AssertKnown("call_terminates", false, "KF-C06-copy-into-own-subtree-does-not-converge", overlapping && op != 7)
					verif.Stop()
				}
				return nil
			}
			var err error
			switch op {
			case 5:
				err = fs.CopyWithContext(ctx, p, q)
			case 6:
				err = fs.CopyToDirectoryWithContext(ctx, p, q)
			case 7:
				err = fs.MoveWithContext(ctx, p, q)
			}
			_ = diverged
			movingIntoItself = false
			after := vSnapshot(rec.inner, "/")
			if op == 7 {
				verif.AssertKnown("only_source_and_destination_change", vChangesConfinedTo(before, after, p, q),
					"KF-C06-memory-backend-creates-entries-beneath-a-file", vFileOnTheWay(before, q))
			} else {
				if !vIsUnder(p, q) { // the destination is not part of the source subtree
					// content and kinds first (plain assertion), then permissions and timestamps
					verif.Assert("copy_leaves_its_source_untouched", vSameTree(srcBefore, vSubtree(after, p)))
					ontoItself := false
					if _, ok := vIndex(before)[p]; ok {
						parent := p[:len(p)-len(vlBaseName(p))-1]
						ontoItself = q == p || q == parent
					}
					verif.AssertKnown("copy_leaves_its_source_untouched", vSameTreeStrict(srcBefore, vSubtree(after, p)),
						"KF-C06-copy-of-a-file-onto-itself-restamps-it", ontoItself)
				}
				verif.AssertKnown("only_destination_changes", vChangesConfinedTo(before, after, q),
					"KF-C06-memory-backend-creates-entries-beneath-a-file", vFileOnTheWay(before, q))
				// a copy that reports success has delivered the source: at the destination itself or,
				// when that is a directory, under the source's name inside it (the documentation leaves
				// the choice open; the content of the result is not open)
				if _, exists := vIndex(before)[p]; exists && err == nil && !vIsUnder(p, q) && !vIsUnder(q, p) {
					bi := vIndex(before)
					// kind conflicts (a directory copied onto a regular file, a regular file given as the directory to
					// copy into) are exempt from the reference semantics: the property only asks such calls to
					// terminate, to close their handles and to stay within their destination, which is checked above
					kindConflict := false
					if dst, there := bi[q]; there && !dst.dir && (bi[p].dir || op == 6) {
						kindConflict = true
					}
					if !kindConflict {
						// (CopyToDirectory leaves no choice: the source lands under its own name inside the directory)
						verif.Assert("a_successful_copy_delivers_the_source",
							(op == 5 && vDelivered(srcBefore, p, before, after, q)) || vDelivered(srcBefore, p, before, after, q+"/"+vlBaseName(p)))
					}
				}
			}
			verif.Observe("failed", err != nil)
		case 8:
			isDir, err := fs.IsDir(p)
			n, exists := vIndex(before)[p]
			if err == nil {
				verif.Assert("isdir_matches_tree", isDir == (exists && n.dir))
			}
			verif.Assert("query_changes_nothing", vSameTree(before, vSnapshot(rec.inner, "/")))
		case 9:
			_, exists := vIndex(before)[p]
			verif.Assert("exists_matches_tree", fs.Exists(p) == exists)
			verif.Assert("query_changes_nothing", vSameTree(before, vSnapshot(rec.inner, "/")))
		case 10:
			names, err := fs.Ls(p)
			n, exists := vIndex(before)[p]
			if exists && n.dir {
				want := 0
				for _, m := range before {
					if vIsUnder(p, m.path) && m.path != p {
						rest := m.path[len(p)+1:]
						direct := true
						for i := 0; i < len(rest); i++ {
							if rest[i] == '/' {
								direct = false
							}
						}
						if direct {
							want++
						}
					}
				}
				verif.Assert("ls_lists_the_direct_children", err == nil && len(names) == want)
			} else {
				verif.Assert("ls_of_a_non_directory_fails", err != nil)
			}
			verif.Assert("query_changes_nothing", vSameTree(before, vSnapshot(rec.inner, "/")))
		case 11:
			content, err := fs.ReadFile(p)
			n, exists := vIndex(before)[p]
			if exists && !n.dir {
				verif.Assert("read_returns_the_content", err == nil && string(content) == n.data)
			} else {
				verif.Assert("read_of_a_non_file_fails", err != nil)
			}
			verif.Assert("query_changes_nothing", vSameTree(before, vSnapshot(rec.inner, "/")))
		}
		verif.Assert("no_handle_left_open", rec.opens == rec.closes)
		rec.before = nil
		if !vBackendConsistent(rec.inner, before) {
			// a later call would start from a state no consistent filesystem can be in
			verif.AssertKnown("backend_state_stays_consistent", false, "KF-C06-memory-backend-inconsistent-after-conflicting-call", conflicting)
			verif.Stop()
		}
		rec.before = func(op *vOp) error {
			budget--
			return nil
		}
	}
}

// VerifC06_Faults: the backend fails the k-th operation of a call: whatever the
// position, no handle is left open and nothing but the destination changes.
func VerifC06_Faults() {
	rec, fs := vNewFs()
	_ = fs.MkDir("/a")
	_ = fs.WriteFile("/a/f", []byte("f"), 0o644)
	_ = fs.WriteFile("/a/g", []byte("g"), 0o644)
	_ = fs.MkDir("/d")
	before := vSnapshot(rec.inner, "/")
	rec.reset()
	faultAt := verif.Len("faultAt", 1, 30)
	count := 0
	faulted := false
	rec.before = func(op *vOp) error {
		count++
		if count == faultAt && op.name != "Close" {
			faulted = true
			return &os.PathError{Op: "fault", Path: op.path, Err: syscall.EIO}
		}
		return nil
	}
	ctx := context.Background()
	var dst string
	moved := false
	var opErr error
	switch verif.Choice("op", 7) {
	case 6:
		dst = "/d/m"
		moved = true
		opErr = fs.MoveWithContext(ctx, "/a/f", dst)
	case 0:
		dst = "/d/f"
		_ = fs.CopyToFileWithContext(ctx, "/a/f", dst)
	case 1:
		dst = "/d"
		_ = fs.CopyToDirectoryWithContext(ctx, "/a/f", dst)
	case 2:
		dst = "/d/a"
		_ = fs.CopyWithContext(ctx, "/a", dst)
	case 3:
		dst = "/d/w"
		_ = fs.WriteFile(dst, []byte("w"), 0o644)
	case 4:
		dst = ""
		_, _ = fs.ReadFile("/a/f")
	case 5:
		dst = ""
		_, _ = fs.Ls("/a")
	}
	rec.before = nil
	verif.Assume(faulted)
	verif.Assert("no_handle_left_open", rec.opens == rec.closes)
	after := vSnapshot(rec.inner, "/")
	if moved {
		// a move that fails must not have lost the file: it is still at the source or already at the destination
		_, atSrc := vIndex(after)["/a/f"]
		_, atDst := vIndex(after)[dst]
		verif.Assert("failed_or_not_a_move_never_loses_the_file", atSrc || atDst)
		if opErr == nil {
			verif.Assert("successful_move_arrives", atDst)
		}
		verif.Assert("only_source_and_destination_change", vChangesConfinedTo(before, after, "/a/f", dst))
		return
	}
	verif.Assert("copy_leaves_its_source_untouched", vSameTreeStrict(vSubtree(before, "/a"), vSubtree(after, "/a")))
	if dst != "" {
		verif.Assert("only_destination_changes", vChangesConfinedTo(before, after, dst))
	} else {
		verif.Assert("query_changes_nothing", vSameTree(before, after))
	}
}

func vlBaseName(p string) string {
	k := len(p)
	for k > 0 && p[k-1] != '/' {
		k--
	}
	return p[k:]
}

// VerifC06_MoveFolderUnderFaults: moving a directory when the backend cannot
// rename it (cross-device) and one more operation fails: no file is lost -- each
// one is still at the source or has arrived, complete, at the destination.
func VerifC06_MoveFolderUnderFaults() {
	rec, fs := vNewFs()
	_ = fs.MkDir("/a/sub")
	_ = fs.WriteFile("/a/f", []byte("f"), 0o644)
	_ = fs.WriteFile("/a/g", []byte("g"), 0o644)
	_ = fs.WriteFile("/a/sub/h", []byte("h"), 0o644)
	_ = fs.MkDir("/d")
	rec.reset()
	renameFails := verif.Bool("renameIsNotPossible")
	faultAt := verif.Len("faultAt", 0, 60) // 0: no further fault
	count := 0
	probeOfSourceFailed := false
	rec.before = func(op *vOp) error {
		count++
		if renameFails && op.name == "Rename" {
			return &os.LinkError{Op: "rename", Old: op.path, New: op.path2, Err: syscall.EXDEV}
		}
		if count == faultAt && op.name != "Close" {
			// a failing probe (Stat / Open / Readdirnames) of a source DIRECTORY is the recorded known finding
			if op.name == "Stat" || op.name == "Open" || op.name == "OpenFile" || op.name == "Readdirnames" || op.name == "Readdir" {
				probeOfSourceFailed = op.path == "/a" || op.path == "/a/sub" // the source directories only, not the files in them
			}
			return &os.PathError{Op: "fault", Path: op.path, Err: syscall.EACCES}
		}
		return nil
	}
	err := fs.MoveWithContext(context.Background(), "/a", "/d/m")
	rec.before = nil
	after := vIndex(vSnapshot(rec.inner, "/"))
	for _, f := range []struct{ rel, data string }{{"/f", "f"}, {"/g", "g"}, {"/sub/h", "h"}} {
		src, atSrc := after["/a"+f.rel]
		dst, atDst := after["/d/m"+f.rel]
		verif.AssertKnown("a_move_never_loses_a_file", (atSrc && src.data == f.data) || (atDst && dst.data == f.data),
			"KF-C06-move-fallback-deletes-unreadable-source", renameFails && probeOfSourceFailed)
		if err == nil {
			verif.Assert("successful_move_arrives_complete", atDst && dst.data == f.data)
		}
	}
	verif.Assert("no_handle_left_open", rec.opens == rec.closes)
}

