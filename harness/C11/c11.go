package commonerrors

import (
	"context"
	"errors"
	"strings"

	"github.com/ARM-software/golang-utils/utils/zz_verif/verif"
)

var vKinds = []error{ErrNotImplemented, ErrNoExtension, ErrNoLogger, ErrNoLoggerSource, ErrNoLogSource, ErrUndefined,
	ErrInvalidDestination, ErrTimeout, ErrLocked, ErrStaleLock, ErrExists, ErrNotFound, ErrUnsupported, ErrUnavailable,
	ErrWrongUser, ErrUnauthorised, ErrUnknown, ErrInvalid, ErrConflict, ErrMarshalling, ErrCancelled, ErrEmpty,
	ErrUnexpected, ErrTooLarge, ErrForbidden, ErrCondition, ErrEOF, ErrMalicious, ErrWarning, ErrOutOfRange}

func vMsgLen() int {
	if verif.Tier() > 0 {
		return 2
	}
	return 1
}

// vMessage: symbolic bytes, optionally around the name of another kind
// (the case the substring-based deserialiser is sensitive to).
func vMessage(singleLine bool) string { return vMessageN(singleLine, vMsgLen()) }

// vMessageN: a message of 0..maxLen symbolic bytes. The serialisation harnesses
// keep to one byte in both tiers: with two, each of them alone runs for more
// than an hour (found when the thorough tier was re-run at the end).
func vMessageN(singleLine bool, maxLen int) string {
	n := verif.Len("msglen", 0, maxLen)
	m := verif.String("msg", n)
	if singleLine {
		for i := 0; i < len(m); i++ {
			verif.Assume(m[i] != '\n')
		}
	}
	return m
}

// vMessageWithKind: like vMessage, optionally followed by the name of another
// kind (6 representative ones).
func vMessageWithKind(singleLine bool) string {
	m := vMessageN(singleLine, 1)
	if verif.Bool("embedKind") {
		repr := []error{ErrInvalid, ErrNotFound, ErrLocked, ErrTimeout, ErrCancelled, ErrInvalidDestination}
		return m + repr[verif.Choice("embedded", len(repr))].Error()
	}
	return m
}

// vBuild makes an error of kind `kind` with one of the constructors.
func vBuild(kind error, msg string) error {
	switch verif.Choice("ctor", 5) {
	case 0:
		return New(kind, msg)
	case 1:
		return Newf(kind, "%v", msg)
	case 2:
		return Errorf(kind, "%v", msg)
	case 3:
		return WrapError(kind, errors.New("cause"), msg)
	default:
		return WrapIfNotCommonError(kind, errors.New("cause"), msg)
	}
}

func vIsContextKind(k error) bool { return k == ErrCancelled || k == ErrTimeout }

// VerifC11_KindSurvivesWrapping: chains of constructors of depth 1..2 (thorough 3).
func VerifC11_KindSurvivesWrapping() {
	k := verif.Choice("kind", len(vKinds))
	kind := vKinds[k]
	depth := 2
	if verif.Tier() > 0 {
		depth = 3
	}
	d := verif.Len("depth", 1, depth)
	e := vBuild(kind, vMessage(false))
	for lvl := 1; lvl < d; lvl++ {
		// re-wrapping an error that already carries a kind: the kind is kept
		switch verif.Choice("rewrap", 3) {
		case 0:
			e = New(e, vMessage(false))
		case 1:
			e = WrapIfNotCommonError(ErrUnknown, e, vMessage(false))
		case 2:
			e = WrapIfNotCommonErrorf(ErrUnexpected, e, "%v", vMessage(false))
		}
	}
	verif.Assert("any_recognises_kind", Any(e, kind))
	verif.Assert("errors_is_recognises_kind", errors.Is(e, kind))
	verif.Assert("is_common_error", IsCommonError(e))
	verif.Assert("none_is_false", !None(e, kind))
}

// VerifC11_ContextCauseKept: a cancellation / deadline cause is never reclassified.
func VerifC11_ContextCauseKept() {
	k := verif.Choice("kind", len(vKinds))
	kind := vKinds[k]
	var cause, want error
	if verif.Bool("deadline") {
		cause, want = context.DeadlineExceeded, ErrTimeout
	} else {
		cause, want = context.Canceled, ErrCancelled
	}
	if verif.Bool("wrappedCause") {
		cause = New(cause, "inner") // already converted by a lower layer
	}
	var e error
	switch verif.Choice("ctor", 4) {
	case 0:
		e = WrapError(kind, cause, vMessage(false))
	case 1:
		e = WrapIfNotCommonError(kind, cause, vMessage(false))
	case 2:
		e = WrapErrorf(kind, cause, "%v", vMessage(false))
	case 3:
		e = WrapIfNotCommonErrorf(kind, cause, "%v", vMessage(false))
	}
	verif.Assert("context_cause_recognised", Any(e, want))
	if kind != want {
		verif.Assert("context_cause_not_reclassified", !Any(e, kind))
	}
	verif.Assert("convert_context_error", ConvertContextError(cause) == want || Any(ConvertContextError(cause), want))
}

// vNormalise trims whitespace around colons (and at both ends).
func vNormalise(s string) string {
	parts := strings.Split(s, ":")
	for i := range parts {
		parts[i] = strings.TrimSpace(parts[i])
	}
	return strings.Join(parts, ":")
}

// vReason is the text after the kind (first colon), whitespace around colons trimmed.
func vReason(s string) string {
	n := vNormalise(s)
	k := strings.Index(n, ":")
	if k < 0 {
		return ""
	}
	return n[k+1:]
}

// VerifC11_RoundTrip: serialise / deserialise a single error.
func VerifC11_RoundTrip() {
	k := verif.Choice("kind", len(vKinds))
	kind := vKinds[k]
	nested := verif.Bool("nestedTarget")
	var e error
	if nested {
		// the %w target of the outer constructor is itself a wrapped error
		e = New(New(kind, vMessageN(true, 1)), vMessageN(true, 1))
	} else {
		e = vBuild(kind, vMessageWithKind(true))
	}
	text, err := SerialiseError(e)
	verif.Assert("serialise_ok", err == nil)
	d, err := DeserialiseError(text)
	verif.Assert("deserialise_ok", err == nil && d != nil)
	verif.Assert("roundtrip_kind", Any(d, kind))
	verif.AssertKnown("roundtrip_reason", vReason(d.Error()) == vReason(e.Error()),
		"KF-C11-reason-duplicated-for-nested-target", nested)
}

// VerifC11_MessagesWithPercent: a message is data, not a format: messages that
// contain '%' (a progress figure, a URL-encoded path, a stray verb) come out of
// every constructor as given and survive the round trip.
func VerifC11_MessagesWithPercent() {
	msgs := []string{"100% full", "%", "50%d", "a%20b", "%v", "done 100%", "%!s(MISSING)"}
	msg := msgs[verif.Choice("percentMessage", len(msgs))]
	kind := vKinds[verif.Choice("kind", len(vKinds))]
	e := vBuild(kind, msg)
	verif.Assert("kind_recognised", Any(e, kind))
	verif.Assert("message_is_kept_as_given", strings.Contains(e.Error(), msg))
	text, err := SerialiseError(e)
	verif.Assert("serialise_ok", err == nil)
	d, err := DeserialiseError(text)
	verif.Assert("deserialise_ok", err == nil && d != nil)
	verif.Assert("roundtrip_kind", Any(d, kind))
	verif.Assert("roundtrip_reason", vReason(d.Error()) == vReason(e.Error()))
}

// VerifC11_RoundTripMultiLine: messages may contain newlines (kind clause only).
func VerifC11_RoundTripMultiLine() {
	k := verif.Choice("kind", len(vKinds))
	kind := vKinds[k]
	e := New(kind, vMessageWithKind(false))
	text, err := SerialiseError(e)
	verif.Assert("serialise_ok", err == nil)
	d, err := DeserialiseError(text)
	verif.Assert("deserialise_ok", err == nil && d != nil)
	verif.Assert("roundtrip_kind", Any(d, kind))
}

// VerifC11_RoundTripJoin: joins of 1..2 errors keep all their kinds.
func VerifC11_RoundTripJoin() {
	n := verif.Len("n", 1, 2)
	var errs []error
	var kinds []error
	repr := []error{ErrInvalid, ErrNotFound, ErrLocked, ErrTimeout, ErrCancelled, ErrInvalidDestination}
	for i := 0; i < n; i++ {
		var kind error
		if i == 0 {
			kind = vKinds[verif.Choice("kind", len(vKinds))]
		} else {
			kind = repr[verif.Choice("kind", len(repr))]
		}
		kinds = append(kinds, kind)
		errs = append(errs, New(kind, vMessageShort()))
	}
	e := errors.Join(errs...)
	text, err := SerialiseError(e)
	verif.Assert("serialise_ok", err == nil)
	d, err := DeserialiseError(text)
	verif.Assert("deserialise_ok", err == nil && d != nil)
	for _, kind := range kinds {
		verif.Assert("roundtrip_all_kinds", Any(d, kind))
	}
}

func vMessageShort() string {
	n := verif.Len("msglen", 0, 1)
	m := verif.String("msg", n)
	for i := 0; i < len(m); i++ {
		verif.Assume(m[i] != '\n')
	}
	return m
}

// VerifC11_FormattedVariantsAgree: the ...f constructors are the formatted
// versions of the plain ones: for every target kind and every sort of cause
// (none, a plain error, a common error of another kind, a cancellation, a
// deadline) both produce the same text and are recognised as the same kinds.
func VerifC11_FormattedVariantsAgree() {
	target := vKinds[verif.Choice("kind", len(vKinds))]
	if verif.Bool("rawContextTarget") {
		target = []error{context.Canceled, context.DeadlineExceeded}[verif.Choice("rawTarget", 2)]
	}
	var cause error
	switch verif.Choice("cause", 5) {
	case 1:
		cause = errors.New("plain failure")
	case 2:
		cause = New(vKinds[verif.Choice("causeKind", len(vKinds))], "inner")
	case 3:
		cause = context.Canceled
	case 4:
		cause = context.DeadlineExceeded
	}
	msg := vMessageShort()
	var plain, formatted error
	switch verif.Choice("ctor", 3) {
	case 0:
		plain, formatted = New(target, msg), Newf(target, "%v", msg)
	case 1:
		plain, formatted = WrapError(target, cause, msg), WrapErrorf(target, cause, "%v", msg)
	case 2:
		plain, formatted = WrapIfNotCommonError(target, cause, msg), WrapIfNotCommonErrorf(target, cause, "%v", msg)
	}
	verif.Assert("both_build_an_error", plain != nil && formatted != nil)
	verif.Assert("same_text", plain.Error() == formatted.Error())
	for _, k := range vKinds {
		verif.Assert("same_kinds", Any(plain, k) == Any(formatted, k))
	}
}
