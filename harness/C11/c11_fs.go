package filesystem

import (
	"context"
	"io"
	"os"
	"syscall"

	"github.com/spf13/afero"

	"github.com/ARM-software/golang-utils/utils/commonerrors"
	"github.com/ARM-software/golang-utils/utils/zz_verif/verif"
)

type vBackendCondition struct {
	name string
	err  error
	kind error
}

// the table is fixed from the documented intent of ConvertFileSystemError
func vBackendConditions() []vBackendCondition {
	pe := func(errno syscall.Errno) error { return &os.PathError{Op: "op", Path: "/p", Err: errno} }
	return []vBackendCondition{
		{"context canceled", context.Canceled, commonerrors.ErrCancelled},
		{"context deadline", context.DeadlineExceeded, commonerrors.ErrTimeout},
		{"os deadline exceeded", os.ErrDeadlineExceeded, commonerrors.ErrTimeout},
		{"exist", os.ErrExist, commonerrors.ErrExists},
		{"afero file exists", afero.ErrFileExists, commonerrors.ErrExists},
		{"EEXIST", pe(syscall.EEXIST), commonerrors.ErrExists},
		{"ENOTEMPTY", pe(syscall.ENOTEMPTY), commonerrors.ErrExists},
		{"permission", os.ErrPermission, commonerrors.ErrConflict},
		{"EACCES", pe(syscall.EACCES), commonerrors.ErrConflict},
		{"EPERM", pe(syscall.EPERM), commonerrors.ErrConflict},
		{"closed", os.ErrClosed, commonerrors.ErrConflict},
		{"afero closed", afero.ErrFileClosed, commonerrors.ErrConflict},
		{"closed pipe", io.ErrClosedPipe, commonerrors.ErrConflict},
		{"not exist", os.ErrNotExist, commonerrors.ErrNotFound},
		{"afero not found", afero.ErrFileNotFound, commonerrors.ErrNotFound},
		{"ENOENT", pe(syscall.ENOENT), commonerrors.ErrNotFound},
		{"no deadline", os.ErrNoDeadline, commonerrors.ErrUnsupported},
		{"invalid", os.ErrInvalid, commonerrors.ErrInvalid},
		{"out of range", afero.ErrOutOfRange, commonerrors.ErrOutOfRange},
		{"too large", afero.ErrTooLarge, commonerrors.ErrTooLarge},
		{"chown not implemented", ErrChownNotImplemented, commonerrors.ErrNotImplemented},
		{"link not implemented", ErrLinkNotImplemented, commonerrors.ErrNotImplemented},
		{"unexpected EOF", io.ErrUnexpectedEOF, commonerrors.ErrEOF},
	}
}

// VerifC11_FileSystemConverter: each backend condition maps to one stable kind,
// also when it is wrapped, and converting twice changes nothing.
func VerifC11_FileSystemConverter() {
	conds := vBackendConditions()
	c := conds[verif.Choice("condition", len(conds))]
	in := c.err
	if verif.Bool("wrapped") {
		in = &os.LinkError{Op: "rename", Old: "/a", New: "/b", Err: c.err}
		if _, isPath := c.err.(*os.PathError); isPath {
			in = &os.LinkError{Op: "rename", Old: "/a", New: "/b", Err: c.err.(*os.PathError).Err}
		}
	}
	out := ConvertFileSystemError(in)
	verif.Assert("backend_condition_kind", out != nil && commonerrors.Any(out, c.kind))
	again := ConvertFileSystemError(out)
	verif.Assert("converter_is_idempotent", again != nil && commonerrors.Any(again, c.kind))
	// one stable kind: none of the other kinds of the table applies
	for _, o := range conds {
		if o.kind != c.kind {
			verif.Assert("exactly_one_kind", !commonerrors.Any(out, o.kind))
		}
	}
	verif.Assert("nil_stays_nil", ConvertFileSystemError(nil) == nil)
}
