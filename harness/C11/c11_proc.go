package proc

import (
	"context"
	"errors"
	"fmt"
	"os"
	"os/exec"
	"syscall"

	"github.com/shirou/gopsutil/v4/process"

	"github.com/ARM-software/golang-utils/utils/commonerrors"
	"github.com/ARM-software/golang-utils/utils/zz_verif/verif"
)

type vProcCondition struct {
	err  error
	want error // the kind the converter documents for it (nil: "no error")
}

// every backend error value the process error converter knows about
func vProcConditions() []vProcCondition {
	return []vProcCondition{
		{context.Canceled, commonerrors.ErrCancelled},
		{context.DeadlineExceeded, commonerrors.ErrTimeout},
		{errors.New("signal: killed"), os.ErrProcessDone},
		{errors.New("signal: terminated"), os.ErrProcessDone},
		{syscall.ESRCH, nil},
		{exec.ErrWaitDelay, commonerrors.ErrTimeout},
		{exec.ErrDot, commonerrors.ErrNotFound},
		{exec.ErrNotFound, commonerrors.ErrNotFound},
		{process.ErrorNotPermitted, commonerrors.ErrForbidden},
		{process.ErrorProcessNotRunning, commonerrors.ErrNotFound},
		{errors.New("OpenProcess: Access is denied"), commonerrors.ErrNotFound},
		{errors.New("not implemented yet"), commonerrors.ErrNotImplemented},
	}
}

// VerifC11_ProcessConverter: each backend condition has one stable kind, also
// when it arrives wrapped, and converting twice changes nothing.
func VerifC11_ProcessConverter() {
	conds := vProcConditions()
	c := conds[verif.Choice("condition", len(conds))]
	in := c.err
	if verif.Bool("wrapped") {
		in = fmt.Errorf("while waiting for the child: %w", c.err)
	}
	out := ConvertProcessError(in)
	if c.want == nil {
		verif.Assert("condition_means_no_error", out == nil)
	} else {
		verif.Assert("backend_condition_kind", out != nil && commonerrors.Any(out, c.want))
		again := ConvertProcessError(out)
		verif.Assert("converter_is_idempotent", again != nil && commonerrors.Any(again, c.want))
	}
	verif.Assert("nil_stays_nil", ConvertProcessError(nil) == nil)
	plain := errors.New("verif: some other failure")
	verif.Assert("unknown_errors_pass_through", ConvertProcessError(plain) == plain)
}
