package filesystem

import (
	"github.com/spf13/afero"
	"bytes"
	"archive/tar"
	"context"
	"os"
	"time"

	"github.com/ARM-software/golang-utils/utils/commonerrors"
	"github.com/ARM-software/golang-utils/utils/zz_verif/verif"
)

// vGenNamedTree: a tree of depth <= 2 whose names come from a list that includes
// legal names with leading / doubled dots, spaces and shell metacharacters.
func vGenNamedTree(fs FS, root string, names []string) (count int) {
	_ = fs.MkDir(root)
	contents := []string{"", "x", "hello world"}
	first := ""
	for i := 0; i < 2; i++ {
		n1 := names[verif.Choice("name1", len(names))]
		// two different entries, not the same path written twice (a file written over a
		// directory leaves the in-memory backend inconsistent: see the C06 findings)
		verif.Assume(i == 0 || n1 != first)
		first = n1
		switch verif.Choice("k1", 3) {
		case 1:
			_ = fs.WriteFile(root+"/"+n1, []byte(contents[verif.Choice("content", len(contents))]), 0o644)
			count++
		case 2:
			_ = fs.MkDir(root + "/" + n1)
			count++
			if verif.Bool("child") {
				n2 := names[verif.Choice("name2", len(names))]
				_ = fs.WriteFile(root+"/"+n1+"/"+n2, []byte(contents[verif.Choice("content", len(contents))]), 0o644)
				count++
			}
		}
	}
	return
}

func vRel(nodes []vNode, root string) []vNode {
	var out []vNode
	for _, n := range nodes {
		n.path = n.path[len(root):]
		out = append(out, n)
	}
	return out
}

func vHasDotDotName(nodes []vNode) bool {
	for _, n := range nodes {
		if vHasDotDotSubstring(n.path) {
			return true
		}
	}
	return false
}

// VerifC07_RoundTrip: zip a tree with the real Zip, unzip it with the real Unzip.
func VerifC07_RoundTrip() {
	rec, fs := vNewFs()
	// "d.gz": a file or a directory that merely carries an archive extension (the default limits expand nested archives)
	names := []string{"a", "b c", ".hidden", "a..b", "$x;", "d.gz"}
	if verif.Tier() == 0 {
		names = []string{"a", ".h", "a..b", "d.gz"}
	}
	vGenNamedTree(fs, "/src", names)
	// stamp a modification time the archive format can hold (2 s precision)
	stamp := time.Date(2021, 3, 4, 5, 6, 8, 0, time.UTC)
	for _, n := range vSnapshot(rec.inner, "/src") {
		_ = rec.inner.Chtimes(n.path, stamp, stamp)
	}
	src := vSnapshot(rec.inner, "/src")
	ctx := context.Background()
	verif.Assert("zip_succeeds", fs.ZipWithContext(ctx, "/src", "/a.zip") == nil)
	verif.Assert("source_untouched_by_zip", vSameTree(src, vSnapshot(rec.inner, "/src")))
	var list []string
	var err error
	if verif.Bool("recursiveLimits") {
		// "with and without limits": the default limits also look for nested archives by extension
		list, err = fs.UnzipWithContextAndLimits(ctx, "/a.zip", "/out", DefaultLimits())
	} else {
		list, err = fs.UnzipWithContext(ctx, "/a.zip", "/out")
	}
	dotdot := vHasDotDotName(src)
	verif.AssertKnown("unzip_of_own_archive_succeeds", err == nil, "KF-C07-dotdot-name-not-extractable", dotdot)
	if err != nil {
		return
	}
	out := vSnapshot(rec.inner, "/out")
	verif.Assert("same_paths_kinds_contents", vSameTree(vRel(src, "/src"), vRel(out, "/out")))
	// the returned list names exactly the entries created
	verif.Assert("list_has_one_name_per_entry", len(list) == len(out))
	for _, n := range out {
		verif.Assert("list_names_every_created_entry", vContains(list, n.path))
	}
	for _, n := range out {
		if !n.dir {
			verif.Assert("mtime_preserved_for_files", n.mtime.Equal(stamp))
		} else {
			verif.Assert("mtime_preserved_for_directories", n.mtime.Equal(stamp))
		}
	}
	// (not a clause of this property -- handle hygiene is C06's -- so observed, not asserted)
	verif.Observe("handles_balanced", rec.opens == rec.closes)
}

// VerifC07_ZipView: the read-only zip filesystem over an archive of the tree.
func VerifC07_ZipView() { vArchiveView(false) }

// VerifC07_TarView: the same for the read-only tar filesystem (the archive is
// written with the real archive/tar writer).
func VerifC07_TarView() { vArchiveView(true) }

// vBuildTar archives the tree below root: directories first, paths relative to root.
func vBuildTar(inner afero.Fs, root string) []byte {
	var buf bytes.Buffer
	w := tar.NewWriter(&buf)
	for _, n := range vSnapshot(inner, root) {
		rel := n.path[len(root)+1:]
		if n.dir {
			_ = w.WriteHeader(&tar.Header{Typeflag: tar.TypeDir, Name: rel + "/", Mode: 0o755, ModTime: n.mtime})
			continue
		}
		_ = w.WriteHeader(&tar.Header{Typeflag: tar.TypeReg, Name: rel, Mode: 0o644, Size: int64(len(n.data)), ModTime: n.mtime})
		_, _ = w.Write([]byte(n.data))
	}
	_ = w.Close()
	return buf.Bytes()
}

func vArchiveView(useTar bool) {
	rec, fs := vNewFs()
	vGenNamedTree(fs, "/src", []string{"a", "b"})
	src := vSnapshot(rec.inner, "/src")
	ctx := context.Background()
	var zfs ICloseableFS
	var zfile File
	var err error
	if useTar {
		verif.Assume(fs.WriteFile("/a.tar", vBuildTar(rec.inner, "/src"), 0o644) == nil) // precondition of this harness ("tar_written"), not a clause of the property
		zfs, zfile, err = NewTarFileSystem(fs, "/a.tar", NoLimits())
	} else {
		verif.Assert("zip_succeeds", fs.ZipWithContext(ctx, "/src", "/a.zip") == nil)
		zfs, zfile, err = NewZipFileSystem(fs, "/a.zip", NoLimits())
	}
	verif.Assert("view_opens", err == nil && zfs != nil && zfile != nil)
	// same paths, kinds, sizes, contents
	for _, n := range src {
		rel := n.path[len("/src"):]
		// the tar view answers "does not exist" for a directory that holds nothing
		emptyDirInTar := false
		if useTar && n.dir {
			emptyDirInTar = true
			for _, m := range src {
				if len(m.path) > len(n.path)+1 && m.path[:len(n.path)+1] == n.path+"/" {
					emptyDirInTar = false
				}
			}
		}
		verif.AssertKnown("view_exposes_every_entry", zfs.Exists(rel), "KF-C07-empty-directory-does-not-exist-in-tar-view", emptyDirInTar)
		isDir, e := zfs.IsDir(rel)
		verif.AssertKnown("view_kinds", e == nil && isDir == n.dir, "KF-C07-empty-directory-does-not-exist-in-tar-view", emptyDirInTar)
		if !n.dir {
			b, e := zfs.ReadFile(rel)
			if n.data == "" {
				// the read helpers may report a zero-byte result as 'empty'
				verif.Assert("view_contents", len(b) == 0 && (e == nil || commonerrors.Any(e, commonerrors.ErrEmpty)))
			} else {
				verif.Assert("view_contents", e == nil && string(b) == n.data)
			}
			sz, e := zfs.GetFileSize(rel)
			verif.Assert("view_sizes", e == nil && sz == n.size)
		}
	}
	// every mutating call is refused and changes nothing
	before := vSnapshot(rec.inner, "/")
	mut := verif.Choice("mutation", 7)
	var merr error
	switch mut {
	case 0:
		merr = zfs.WriteFile("/new", []byte("x"), 0o644)
	case 1:
		merr = zfs.MkDir("/newdir")
	case 2:
		merr = zfs.Rm("/a")
		if !zfs.Exists("/a") {
			merr = commonerrors.ErrForbidden // nothing to remove: vacuous
		}
	case 3:
		merr = zfs.Chmod("/a", 0o600)
		if !zfs.Exists("/a") {
			merr = commonerrors.ErrForbidden
		}
	case 4:
		merr = zfs.Move("/a", "/z")
		if !zfs.Exists("/a") {
			merr = commonerrors.ErrForbidden
		}
	case 5:
		_, merr = zfs.CreateFile("/c")
	case 6:
		merr = zfs.Chtimes("/a", time.Time{}, time.Time{})
		if !zfs.Exists("/a") {
			merr = commonerrors.ErrForbidden
		}
	}
	emptyDirA := false
	for _, n := range src {
		if n.path == "/src/a" && n.dir {
			emptyDirA = true
			for _, m := range src {
				if len(m.path) > len("/src/a/") && m.path[:len("/src/a/")] == "/src/a/" {
					emptyDirA = false
				}
			}
		}
	}
	verif.AssertKnown("view_refuses_mutations", merr != nil, "KF-C07-rm-of-empty-dir-on-view-reports-success", mut == 2 && emptyDirA)
	verif.Assert("refused_mutation_changes_nothing", vSameTree(before, vSnapshot(rec.inner, "/")))
	// once closed, nothing is served any more
	verif.Assume(zfs.Close() == nil) // precondition of this harness ("close_ok"), not a clause of the property
	_, e1 := zfs.Ls("/")
	verif.Assert("closed_ls_fails_with_condition_kind", e1 != nil && commonerrors.Any(e1, commonerrors.ErrCondition))
	_, e2 := zfs.Lstat("/a")
	verif.Assert("closed_lstat_fails_with_condition_kind", e2 != nil && commonerrors.Any(e2, commonerrors.ErrCondition))
	e3 := zfs.Walk("/", func(string, os.FileInfo, error) error { return nil })
	verif.Assert("closed_walk_fails_with_condition_kind", e3 != nil && commonerrors.Any(e3, commonerrors.ErrCondition))
	_, e4 := zfs.ReadFile("/a")
	verif.Assert("closed_read_fails", e4 != nil)
	verif.Assert("closed_exists_is_false", !zfs.Exists("/a"))
}
