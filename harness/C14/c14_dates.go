package http

import (
	"math/rand"
	nethttp "net/http"
	"time"

	"github.com/ARM-software/golang-utils/utils/zz_verif/verif"
)

// VerifC14_RetryAfterDates: the HTTP-date flavour of Retry-After (and headers
// that are neither a number nor a date), through the real date parsing, for
// every policy configuration: honoured exactly when enabled on 429/503 -- the
// wait is the time left until the date (0 for dates that are not in the
// future) -- and ignored otherwise.
func VerifC14_RetryAfterDates() {
	min, max := time.Second, 30*time.Second
	cfg := &RetryPolicyConfiguration{
		Enabled:              verif.Bool("enabled"),
		RetryMax:             3,
		RetryAfterDisabled:   verif.Bool("retryAfterDisabled"),
		BackOffEnabled:       verif.Bool("backoff"),
		LinearBackOffEnabled: verif.Bool("linear"),
	}
	policy := BackOffPolicyFactory(cfg)
	status := []int{200, 429, 503, 500}[verif.Choice("status", 4)]
	resp := &nethttp.Response{StatusCode: status, Header: nethttp.Header{}}

	deltas := []time.Duration{-time.Hour, -time.Second, 0, 30 * time.Second, 2 * time.Hour}
	layouts := []string{nethttp.TimeFormat, time.RFC850, time.ANSIC, time.RFC1123Z, time.RFC3339}
	garbage := []string{"soon", "", "12abc", "1.5", "Mon, 99 Foo 2020"}
	isDate := verif.Bool("date")
	var delta time.Duration
	if isDate {
		delta = deltas[verif.Choice("delta", len(deltas))]
		layout := layouts[verif.Choice("layout", len(layouts))]
		resp.Header["Retry-After"] = []string{time.Now().Add(delta).UTC().Format(layout)}
	} else {
		resp.Header["Retry-After"] = []string{garbage[verif.Choice("garbage", len(garbage))]}
	}
	n := verif.Choice("n", 3)
	w := policy.Apply(min, max, n, resp)
	verif.Assert("never_negative", w >= 0)
	basic := !cfg.Enabled || !cfg.BackOffEnabled
	linear := !basic && cfg.LinearBackOffEnabled
	honoured := !cfg.RetryAfterDisabled && isDate && (status == 429 || status == 503)
	if honoured {
		if delta <= 0 {
			verif.Assert("past_date_means_no_wait", w == 0)
		} else {
			// the header has a precision of one second
			verif.Assert("future_date_is_the_time_left", w <= delta && w > delta-2*time.Second)
		}
		return
	}
	if basic {
		verif.Assert("constant_is_min", w == min)
	} else if linear {
		verif.Assert("linear_in_range", w >= time.Duration(n+1)*min && w <= time.Duration(n+1)*max)
	} else {
		verif.Assert("exponential_in_range", w >= min && w <= max)
	}
}

// VerifOverrideRandFloat64Dates replaces (*math/rand.Rand).Float64 under the
// engine in this unit: the jitter factor of the linear policy, on the grid k/4.
func VerifOverrideRandFloat64Dates(r *rand.Rand) float64 {
	return float64(verif.Len("jitter4", 0, 3)) / 4
}
