package http

import (
	"context"
	"errors"
	"math/rand"
	nethttp "net/http"
	"time"

	"github.com/go-logr/logr"

	"github.com/ARM-software/golang-utils/utils/commonerrors"
	"github.com/ARM-software/golang-utils/utils/zz_verif/verif"
)

const vMaxDur = int64(1000 * time.Hour) // 3.6e15 ns < 2^53: float64 is exact below it

func vDurations() (time.Duration, time.Duration) {
	mn := verif.Int64("min")
	mx := verif.Int64("max")
	verif.Assume(verif.And(verif.And(mn >= 0, mn <= mx), mx <= vMaxDur))
	return time.Duration(mn), time.Duration(mx)
}

func vAttempt(name string, hi int) int {
	n := verif.IntAny(name)
	verif.Assume(verif.And(n >= 0, n <= hi))
	return n
}

// vLinearAttempt: the attempt number for the linear policy is explored value by
// value (symbolic n times symbolic jitter is beyond every available back end).
func vLinearAttempt() int {
	set := []int{0, 1, 3}
	if verif.Tier() > 0 {
		set = []int{0, 1, 3, 7, 15, 1023}
	}
	return set[verif.Choice("nlinear", len(set))]
}

func vConfig() *RetryPolicyConfiguration {
	return &RetryPolicyConfiguration{
		Enabled:              verif.Bool("enabled"),
		RetryMax:             3,
		RetryAfterDisabled:   verif.Bool("retryAfterDisabled"),
		BackOffEnabled:       verif.Bool("backoff"),
		LinearBackOffEnabled: verif.Bool("linear"),
	}
}

// VerifOverrideRandFloat64 replaces (*math/rand.Rand).Float64 under the engine:
// a jitter factor on the grid k/8 (thorough: k/32).
func VerifOverrideRandFloat64(r *rand.Rand) float64 {
	// explored value by value: a symbolic factor times a symbolic 52-bit duration in
	// float64 is not decided by any available back end within the time-out
	if verif.Tier() > 0 {
		return float64(verif.Len("jitter32", 0, 31)) / 32
	}
	return float64(verif.Len("jitter8", 0, 7)) / 8
}

// VerifOverrideParseDate replaces parseDate under the engine. It is only ever
// reached with the decimal text of an integer (see vResponse), which no date
// layout accepts; natively the real parseDate runs and rejects it as well.
func VerifOverrideParseDate(retryAfter string) (time.Time, error) {
	return time.Time{}, errors.New("verif: not a date")
}

// VerifC14_NoHint: waits without a server hint, for every policy configuration.
func VerifC14_NoHint() {
	min, max := vDurations()
	cfg := vConfig()
	policy := BackOffPolicyFactory(cfg)
	basic := !cfg.Enabled || !cfg.BackOffEnabled
	linear := !basic && cfg.LinearBackOffEnabled
	if linear {
		n := vLinearAttempt()
		w := policy.Apply(min, max, n, nil)
		lo := int64(min) * int64(n+1) // representable: n <= 1000, max <= 1000h
		hi := int64(max) * int64(n+1)
		verif.Assert("never_negative", w >= 0)
		verif.Assert("linear_in_range", verif.And(int64(w) >= lo, int64(w) <= hi))
		return
	}
	n := vAttempt("n", 1<<31)
	w := policy.Apply(min, max, n, nil)
	verif.Observe("wait", int64(w))
	verif.Assert("never_negative", w >= 0)
	if basic {
		verif.Assert("constant_is_min", w == min)
		return
	}
	verif.Assert("exponential_in_range", verif.And(w >= min, w <= max))
	n2 := vAttempt("n2", 1<<31)
	verif.Assume(n <= n2)
	w2 := policy.Apply(min, max, n2, nil)
	verif.Assert("exponential_monotonic", w <= w2)
}

const vMaxWholeSeconds = int64(9223372036) // MaxInt64 / 1e9

// VerifC14_RetryAfterSeconds: a Retry-After value in seconds, any int64.
func VerifC14_RetryAfterSeconds() {
	min, max := vDurations()
	cfg := vConfig()
	policy := BackOffPolicyFactory(cfg)
	secs := verif.Int64("secs")
	status := int(verif.Int16("status"))
	verif.Assume(verif.And(status >= 100, status <= 599))
	resp := &nethttp.Response{StatusCode: status, Header: nethttp.Header{}}
	hasHeader := verif.Bool("hasHeader")
	if hasHeader {
		resp.Header["Retry-After"] = []string{verif.Itoa(secs)}
	}
	basic := !cfg.Enabled || !cfg.BackOffEnabled
	linear := !basic && cfg.LinearBackOffEnabled
	var n int
	if linear {
		n = vLinearAttempt()
	} else {
		n = vAttempt("n", 1<<31)
	}
	w := policy.Apply(min, max, n, resp)
	verif.Assert("never_negative", w >= 0)
	honoured := !cfg.RetryAfterDisabled && hasHeader && (status == 429 || status == 503)
	if honoured {
		if secs <= 0 {
			verif.Assert("retry_after_clamped_at_zero", w == 0)
		} else if secs <= vMaxWholeSeconds {
			verif.Assert("retry_after_exact", int64(w) == secs*1000000000)
		} else {
			verif.Assert("retry_after_saturates", int64(w) >= vMaxWholeSeconds*1000000000)
		}
		return
	}
	// not honoured: same as without a hint
	if basic {
		verif.Assert("constant_is_min", w == min)
	} else if !linear {
		verif.Assert("exponential_in_range", verif.And(w >= min, w <= max))
	}
}

// ---- retry loop ----

var errVerifRetriable = commonerrors.New(commonerrors.ErrUnavailable, "verif: retriable")
var errVerifFatal = commonerrors.New(commonerrors.ErrInvalid, "verif: fatal")

// VerifC14_RetryLoop: a script of attempt outcomes against RetryOnError.
func VerifC14_RetryLoop() {
	maxAttempts := 3
	if verif.Tier() > 0 {
		maxAttempts = 5
	}
	attempts := verif.Len("attempts", 1, maxAttempts)
	cfg := &RetryPolicyConfiguration{
		Enabled:              verif.Bool("enabled"),
		RetryMax:             attempts,
		RetryWaitMin:         time.Millisecond,
		RetryWaitMax:         4 * time.Millisecond,
		BackOffEnabled:       verif.Bool("backoff"),
		LinearBackOffEnabled: verif.Bool("linear"),
	}
	ctx, cancel := context.WithCancel(context.Background())
	defer cancel()
	cancelBefore := verif.Len("cancelBefore", 0, attempts+1) // attempts+1: never
	if cancelBefore == 0 {
		cancel()
	}
	calls := 0
	succeeded := false
	var last error
	afterEnd := false // an invocation happened after a success / fatal error / cancellation
	ended := false
	fn := func() error {
		if ended {
			afterEnd = true
		}
		calls++
		var err error
		switch verif.Choice("outcome", 3) {
		case 0:
			succeeded = true
			ended = true
		case 1:
			err = errVerifRetriable
		case 2:
			err = errVerifFatal
			ended = true
		}
		last = err
		if calls == cancelBefore {
			cancel()
			ended = true
		}
		return err
	}
	err := RetryOnError(ctx, logr.Discard(), cfg, fn, "verif", commonerrors.ErrUnavailable)
	verif.Observe("calls", calls)
	if !cfg.Enabled {
		verif.Assert("disabled_means_one_attempt", calls == 1)
		verif.Assert("disabled_returns_result", err == last)
		return
	}
	verif.Assert("at_most_configured_attempts", calls <= attempts)
	verif.Assert("no_attempt_after_end", !afterEnd)
	verif.Assert("nil_iff_some_attempt_succeeded", (err == nil) == succeeded)
	if cancelBefore == 0 {
		verif.Assert("cancelled_before_start", commonerrors.Any(err, commonerrors.ErrCancelled))
		// avast/retry-go checks the context before the first attempt
		verif.Assert("no_attempt_when_already_cancelled", calls == 0)
		return
	}
	verif.Assert("at_least_one_attempt", calls >= 1)
	if err != nil && !succeeded {
		verif.Assert("last_error_or_context_kind", err == last || commonerrors.Any(err, commonerrors.ErrCancelled, commonerrors.ErrTimeout))
	}
}
