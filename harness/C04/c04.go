package filesystem

import (
	"os/user"
	"context"
	"time"

	"github.com/ARM-software/golang-utils/utils/zz_verif/verif"
)

type vC04Tree struct {
	hasLinkToOutsideDir bool
	hasLinkToOutside    bool
	hasDangling         bool
	hasLoop             bool
	hasLink             bool
}

var vOutsideTargets = []string{"/s/o", "/s/o/y", "/s/o/d", "/s/t", "/missing"}

func vC04Link(fs *vLinkFs, path string, shape *vC04Tree) {
	t := vOutsideTargets[verif.Choice("target", len(vOutsideTargets))]
	_ = fs.SymlinkIfPossible(t, path)
	shape.hasLink = true
	switch t {
	case "/s/o", "/s/o/d":
		shape.hasLinkToOutsideDir = true
		shape.hasLinkToOutside = true
	case "/s/o/y":
		shape.hasLinkToOutside = true
	case "/s/t":
		shape.hasLoop = true
	case "/missing":
		shape.hasDangling = true
	}
}

// vC04Populate: /s/o (outside, fixed) and /s/t (the tree, every shape).
func vC04Populate(fs *vLinkFs) *vC04Tree {
	shape := &vC04Tree{}
	_ = fs.MkdirAll("/s/o/d", 0o755)
	f, _ := fs.Create("/s/o/y")
	_, _ = f.WriteString("outside-y")
	_ = f.Close()
	f, _ = fs.Create("/s/o/d/z")
	_, _ = f.WriteString("outside-z")
	_ = f.Close()
	// siblings whose names have the tree's name as a prefix
	_ = fs.MkdirAll("/s/t2", 0o755)
	f, _ = fs.Create("/s/t2/keep")
	_, _ = f.WriteString("sibling")
	_ = f.Close()
	f, _ = fs.Create("/s/tfile")
	_ = f.Close()
	_ = fs.MkdirAll("/s/t", 0o755)
	for _, name := range []string{"a", "b"} {
		p := "/s/t/" + name
		switch verif.Choice("kind", 5) { // absent, file, read-only file, dir, link
		case 1:
			f, _ := fs.Create(p)
			_, _ = f.WriteString("in")
			_ = f.Close()
		case 2:
			f, _ := fs.OpenFile(p, 0x42|0x1, 0o444) // O_CREATE|O_RDWR
			if f != nil {
				_ = f.Close()
			}
		case 3:
			_ = fs.Mkdir(p, 0o755)
			switch verif.Choice("child", 3) { // absent, file, link
			case 1:
				f, _ := fs.Create(p + "/x")
				_, _ = f.WriteString("x")
				_ = f.Close()
			case 2:
				vC04Link(fs, p+"/x", shape)
			}
		case 4:
			vC04Link(fs, p, shape)
		}
	}
	fs.reset()
	return shape
}

func vOutsideOf(snap []vLEntry) []vLEntry {
	var out []vLEntry
	for _, e := range snap {
		if !vPathInside("/s/t", e.path) {
			out = append(out, e)
		}
	}
	return out
}

func vSameEntries(a, b []vLEntry) bool {
	if len(a) != len(b) {
		return false
	}
	for i := range a {
		if a[i] != b[i] {
			return false
		}
	}
	return true
}

// VerifC04_Removal: Rm / RemoveWithContext / CleanDir on every tree shape.
func VerifC04_Removal() {
	lfs := newLinkFs()
	_ = vC04Populate(lfs)
	fs := NewVirtualFileSystem(lfs, InMemoryFS, IdentityPathConverterFunc)
	before := vOutsideOf(lfs.snapshot())
	ctx := context.Background()
	op := verif.Choice("op", 3)
	target := "/s/t"
	if verif.Bool("trailingSeparator") {
		target = "/s/t/"
	}
	var err error
	switch op {
	case 0:
		err = fs.Rm(target)
	case 1:
		err = fs.RemoveWithContext(ctx, target)
	case 2:
		err = fs.CleanDirWithContext(ctx, target)
	}
	verif.Observe("failed", err != nil)
	after := lfs.snapshot()
	verif.Assert("nothing_outside_the_tree_is_touched", vSameEntries(before, vOutsideOf(after)))
	if err == nil {
		left := 0
		for _, e := range after {
			if vPathInside("/s/t", e.path) && e.path != "/s/t" {
				left++
			}
		}
		rootLeft := lfs.nodes["/s/t"] != nil
		gone := left == 0 && (op == 2 || !rootLeft)
		verif.Assert("success_means_the_tree_is_gone", gone)
		if op == 2 {
			verif.Assert("clean_keeps_the_directory_itself", rootLeft)
		}
	}
	// (not a clause of this property -- handle hygiene is C06's -- so observed, not asserted)
	verif.Observe("handles_balanced", lfs.opens == lfs.closes)
}

// VerifC04_FaultyRemoval: the backend refuses one removal (permission, busy
// file, I/O fault) at any position: the call must not report success while
// entries remain, and still touches nothing outside the tree.
func VerifC04_FaultyRemoval() {
	lfs := newLinkFs()
	_ = lfs.MkdirAll("/s/o", 0o755)
	f, _ := lfs.Create("/s/o/y")
	_ = f.Close()
	_ = lfs.MkdirAll("/s/t/d", 0o755)
	for _, p := range []string{"/s/t/a", "/s/t/b", "/s/t/c", "/s/t/d/x", "/s/t/d/y"} {
		if verif.Bool("present") {
			f, _ := lfs.Create(p)
			_, _ = f.WriteString("in")
			_ = f.Close()
		}
	}
	lfs.reset()
	fs := NewVirtualFileSystem(lfs, InMemoryFS, IdentityPathConverterFunc)
	before := vOutsideOf(lfs.snapshot())
	faultAt := verif.Len("faultAtRemoval", 1, 7) // the k-th Remove issued by the call fails
	// ... or, instead, the caller's context is cancelled right after the k-th removal
	cancelInstead := verif.Bool("cancelInstead")
	ctx, cancel := context.WithCancel(context.Background())
	defer cancel()
	removals := 0
	faulted := false
	lfs.before = func(op *vOp) error {
		if cancelInstead {
			if op.name == "Remove" || op.name == "RemoveAll" {
				removals++
				if removals == faultAt+1 {
					// the k-th removal is done: the (k+1)-th is the first thing that happens after the cancellation
					faulted = true
				}
				if removals == faultAt {
					defer cancel()
				}
			}
			return nil
		}
		if op.name == "Remove" || op.name == "RemoveAll" {
			removals++
			if removals == faultAt {
				faulted = true
				return pathErr("remove", op.path, 13) // EACCES
			}
		}
		return nil
	}
	op := verif.Choice("op", 3)
	if cancelInstead {
		verif.Assume(op != 0) // Rm takes no context
	}
	var err error
	switch op {
	case 0:
		err = fs.Rm("/s/t")
	case 1:
		err = fs.RemoveWithContext(ctx, "/s/t")
	case 2:
		err = fs.CleanDirWithContext(ctx, "/s/t")
	}
	lfs.before = nil
	after := lfs.snapshot()
	verif.Assert("nothing_outside_the_tree_is_touched", vSameEntries(before, vOutsideOf(after)))
	left := 0
	for _, e := range after {
		if vPathInside("/s/t", e.path) && e.path != "/s/t" {
			left++
		}
	}
	rootLeft := lfs.nodes["/s/t"] != nil
	if err == nil {
		verif.Assert("success_means_the_tree_is_gone", left == 0 && (op == 2 || !rootLeft))
	}
	if faulted {
		verif.Reach("fault_injected")
	}
	verif.Observe("handles_balanced", lfs.opens == lfs.closes)
}

// VerifOverrideUserCurrent replaces os/user.Current under the engine (the real one
// reads /etc/passwd); natively the real function runs. The harness does not
// depend on which user it is.
func VerifOverrideUserCurrent() (*user.User, error) {
	return &user.User{Uid: "7", Gid: "7", Username: "verif", HomeDir: "/"}, nil
}

// VerifC04_RemoveWithPrivileges: the removal entry point that takes ownership
// when its first attempt is refused. The tree holds a link to a file or a
// directory outside it; whatever the call does to become able to remove the
// tree, nothing outside -- owners included -- is modified.
func VerifC04_RemoveWithPrivileges() {
	lfs := newLinkFs()
	_ = lfs.MkdirAll("/s/o/d", 0o755)
	f, _ := lfs.Create("/s/o/y")
	_ = f.Close()
	_ = lfs.MkdirAll("/s/t/d", 0o755)
	if verif.Bool("file") {
		f, _ := lfs.Create("/s/t/a")
		_ = f.Close()
	}
	targets := []string{"", "/s/o", "/s/o/y", "/missing"}
	if t := targets[verif.Choice("topLink", len(targets))]; t != "" {
		_ = lfs.SymlinkIfPossible(t, "/s/t/l")
	}
	if t := targets[verif.Choice("nestedLink", len(targets))]; t != "" {
		_ = lfs.SymlinkIfPossible(t, "/s/t/d/l")
	}
	lfs.mu.Lock()
	for _, n := range lfs.nodes {
		n.uid, n.gid = 1000, 1000 // everything belongs to somebody else
	}
	lfs.mu.Unlock()
	lfs.reset()
	fs := NewVirtualFileSystem(lfs, InMemoryFS, IdentityPathConverterFunc)
	before := vOutsideOf(lfs.snapshot())
	// the first attempt is refused at its k-th removal (k = 0: it is not)
	faultAt := verif.Len("firstAttemptRefusedAtRemoval", 0, 3)
	removals := 0
	lfs.before = func(op *vOp) error {
		if op.name == "Remove" || op.name == "RemoveAll" {
			removals++
			if removals == faultAt {
				return pathErr("remove", op.path, 13) // EACCES
			}
		}
		return nil
	}
	err := fs.RemoveWithPrivileges(context.Background(), "/s/t")
	lfs.before = nil
	after := lfs.snapshot()
	verif.Assert("nothing_outside_the_tree_is_touched", vSameEntries(before, vOutsideOf(after)))
	left := 0
	for _, e := range after {
		if vPathInside("/s/t", e.path) {
			left++
		}
	}
	verif.Observe("failed", err != nil)
	if err == nil {
		verif.Assert("success_means_the_tree_is_gone", left == 0)
	}
}

// VerifC04_GarbageCollect: collecting garbage below a root never removes the
// root itself, never touches anything outside it, and keeps recent entries.
func VerifC04_GarbageCollect() {
	rec, fs := vNewFs()
	_ = fs.MkDir("/g/root")
	_ = fs.MkDir("/g/sibling")
	_ = fs.WriteFile("/g/sibling/keep", []byte("k"), 0o644)
	for _, d := range []string{"/g/root/d1", "/g/root/d2"} {
		switch verif.Choice("kind", 3) { // absent, empty directory, directory with a (recent) file
		case 1:
			_ = fs.MkDir(d)
		case 2:
			_ = fs.MkDir(d)
			_ = fs.WriteFile(d+"/f", []byte("f"), 0o644)
		}
	}
	if verif.Bool("fileInRoot") {
		_ = fs.WriteFile("/g/root/f", []byte("f"), 0o644)
	}
	before := vSnapshot(rec.inner, "/g")
	durations := []time.Duration{time.Minute, time.Hour}
	err := fs.GarbageCollectWithContext(context.Background(), "/g/root", durations[verif.Choice("olderThan", 2)])
	verif.Assume(err == nil) // precondition of this harness ("collection_succeeds"), not a clause of the property
	after := vSnapshot(rec.inner, "/g")
	_, statErr := rec.inner.Stat("/g/root")
	verif.Assert("the_root_itself_is_kept", statErr == nil)
	verif.Assert("nothing_outside_the_root_is_touched", vSameTree(vSubtree(before, "/g/sibling"), vSubtree(after, "/g/sibling")))
	// recent files are never collected (every file here was written just now)
	for _, n := range before {
		if !n.dir && vPathInside("/g/root", n.path) {
			_, e := rec.inner.Stat(n.path)
			verif.Observe("recent_files_survive", e == nil) // observed, not asserted: not a clause of this property
		}
	}
}

// VerifC04_EmptyPath: removing "nothing" removes nothing -- an empty path is
// not the working directory.
func VerifC04_EmptyPath() {
	lfs := newLinkFs()
	_ = vC04Populate(lfs)
	fs := NewVirtualFileSystem(lfs, InMemoryFS, IdentityPathConverterFunc)
	before := lfs.snapshot()
	lfs.reset()
	ctx := context.Background()
	var err error
	switch verif.Choice("op", 4) {
	case 0:
		err = fs.Rm("")
	case 1:
		err = fs.RemoveWithContext(ctx, "")
	case 2:
		err = fs.CleanDirWithContext(ctx, "")
	case 3:
		err = fs.RemoveWithContextAndExclusionPatterns(ctx, "", "x")
	}
	verif.Observe("failed", err != nil)
	verif.Assert("an_empty_path_removes_nothing", vSameEntries(before, lfs.snapshot()) && len(lfs.mutations()) == 0)
}

// VerifC04_ExcludedEntriesSurvive: entries matching an exclusion pattern
// survive a removal together with their ancestors, whatever else is in the
// pattern list (top-level entries; the deeper case is the subject of C08).
func VerifC04_ExcludedEntriesSurvive() {
	lfs := newLinkFs()
	_ = lfs.MkdirAll("/s/t/b", 0o755)
	_ = lfs.MkdirAll("/s/o", 0o755)
	for _, p := range []string{"/s/t/a", "/s/t/b/x", "/s/t/c", "/s/o/y"} {
		f, _ := lfs.Create(p)
		_, _ = f.WriteString("in")
		_ = f.Close()
	}
	fs := NewVirtualFileSystem(lfs, InMemoryFS, IdentityPathConverterFunc)
	sets := [][]string{{"a"}, {"", "a"}, {"zz", "", "a"}, {"a", ""}, {" ", "a"}, {"c", "a"}}
	pats := sets[verif.Choice("patterns", len(sets))]
	before := vOutsideOf(lfs.snapshot())
	ctx := context.Background()
	var err error
	if verif.Bool("cleanOnly") {
		err = fs.CleanDirWithContextAndExclusionPatterns(ctx, "/s/t", pats...)
	} else {
		err = fs.RemoveWithContextAndExclusionPatterns(ctx, "/s/t", pats...)
	}
	verif.Observe("failed", err != nil)
	verif.Assert("excluded_entry_survives", lfs.nodes["/s/t/a"] != nil)
	verif.Assert("its_ancestors_survive", lfs.nodes["/s/t"] != nil)
	verif.Assert("nothing_outside_the_tree_is_touched", vSameEntries(before, vOutsideOf(lfs.snapshot())))
	if err == nil {
		verif.Assert("unprotected_entries_are_gone", lfs.nodes["/s/t/b"] == nil && lfs.nodes["/s/t/b/x"] == nil)
	}
}
