package filesystem

import (
	"context"

	"github.com/ARM-software/golang-utils/utils/zz_verif/verif"
)

type vC04Tree struct {
	hasLinkToOutsideDir bool
	hasLinkToOutside    bool
	hasDangling         bool
	hasLoop             bool
	hasLink             bool
}

var vOutsideTargets = []string{"/s/o", "/s/o/y", "/s/o/d", "/s/t", "/missing"}

func vC04Link(fs *vLinkFs, path string, shape *vC04Tree) {
	t := vOutsideTargets[verif.Choice("target", len(vOutsideTargets))]
	_ = fs.SymlinkIfPossible(t, path)
	shape.hasLink = true
	switch t {
	case "/s/o", "/s/o/d":
		shape.hasLinkToOutsideDir = true
		shape.hasLinkToOutside = true
	case "/s/o/y":
		shape.hasLinkToOutside = true
	case "/s/t":
		shape.hasLoop = true
	case "/missing":
		shape.hasDangling = true
	}
}

// vC04Populate: /s/o (outside, fixed) and /s/t (the tree, every shape).
func vC04Populate(fs *vLinkFs) *vC04Tree {
	shape := &vC04Tree{}
	_ = fs.MkdirAll("/s/o/d", 0o755)
	f, _ := fs.Create("/s/o/y")
	_, _ = f.WriteString("outside-y")
	_ = f.Close()
	f, _ = fs.Create("/s/o/d/z")
	_, _ = f.WriteString("outside-z")
	_ = f.Close()
	_ = fs.MkdirAll("/s/t", 0o755)
	for _, name := range []string{"a", "b"} {
		p := "/s/t/" + name
		switch verif.Choice("kind", 5) { // absent, file, read-only file, dir, link
		case 1:
			f, _ := fs.Create(p)
			_, _ = f.WriteString("in")
			_ = f.Close()
		case 2:
			f, _ := fs.OpenFile(p, 0x42|0x1, 0o444) // O_CREATE|O_RDWR
			if f != nil {
				_ = f.Close()
			}
		case 3:
			_ = fs.Mkdir(p, 0o755)
			switch verif.Choice("child", 3) { // absent, file, link
			case 1:
				f, _ := fs.Create(p + "/x")
				_, _ = f.WriteString("x")
				_ = f.Close()
			case 2:
				vC04Link(fs, p+"/x", shape)
			}
		case 4:
			vC04Link(fs, p, shape)
		}
	}
	fs.reset()
	return shape
}

func vOutsideOf(snap []vLEntry) []vLEntry {
	var out []vLEntry
	for _, e := range snap {
		if !vPathInside("/s/t", e.path) {
			out = append(out, e)
		}
	}
	return out
}

func vSameEntries(a, b []vLEntry) bool {
	if len(a) != len(b) {
		return false
	}
	for i := range a {
		if a[i] != b[i] {
			return false
		}
	}
	return true
}

// VerifC04_Removal: Rm / RemoveWithContext / CleanDir on every tree shape.
func VerifC04_Removal() {
	lfs := newLinkFs()
	shape := vC04Populate(lfs)
	fs := NewVirtualFileSystem(lfs, InMemoryFS, IdentityPathConverterFunc)
	before := vOutsideOf(lfs.snapshot())
	ctx := context.Background()
	op := verif.Choice("op", 3)
	var err error
	switch op {
	case 0:
		err = fs.Rm("/s/t")
	case 1:
		err = fs.RemoveWithContext(ctx, "/s/t")
	case 2:
		err = fs.CleanDirWithContext(ctx, "/s/t")
	}
	verif.Observe("failed", err != nil)
	after := lfs.snapshot()
	verif.AssertKnown("nothing_outside_the_tree_is_touched", vSameEntries(before, vOutsideOf(after)),
		"KF-C04-link-to-outside-directory-is-followed", shape.hasLinkToOutsideDir)
	if err == nil {
		left := 0
		for _, e := range after {
			if vPathInside("/s/t", e.path) && e.path != "/s/t" {
				left++
			}
		}
		rootLeft := lfs.nodes["/s/t"] != nil
		gone := left == 0 && (op == 2 || !rootLeft)
		verif.AssertKnown("success_means_the_tree_is_gone", gone,
			"KF-C04-links-survive-a-successful-removal", shape.hasLink)
		if op == 2 {
			verif.Assert("clean_keeps_the_directory_itself", rootLeft)
		}
	}
	verif.Assert("handles_balanced", lfs.opens == lfs.closes)
}

// VerifC04_FaultyRemoval: the backend refuses one removal (permission, busy
// file, I/O fault) at any position: the call must not report success while
// entries remain, and still touches nothing outside the tree.
func VerifC04_FaultyRemoval() {
	lfs := newLinkFs()
	_ = lfs.MkdirAll("/s/o", 0o755)
	f, _ := lfs.Create("/s/o/y")
	_ = f.Close()
	_ = lfs.MkdirAll("/s/t/d", 0o755)
	for _, p := range []string{"/s/t/a", "/s/t/b", "/s/t/c", "/s/t/d/x", "/s/t/d/y"} {
		if verif.Bool("present") {
			f, _ := lfs.Create(p)
			_, _ = f.WriteString("in")
			_ = f.Close()
		}
	}
	lfs.reset()
	fs := NewVirtualFileSystem(lfs, InMemoryFS, IdentityPathConverterFunc)
	before := vOutsideOf(lfs.snapshot())
	faultAt := verif.Len("faultAtRemoval", 1, 7) // the k-th Remove issued by the call fails
	removals := 0
	faulted := false
	lfs.before = func(op *vOp) error {
		if op.name == "Remove" || op.name == "RemoveAll" {
			removals++
			if removals == faultAt {
				faulted = true
				return pathErr("remove", op.path, 13) // EACCES
			}
		}
		return nil
	}
	ctx := context.Background()
	op := verif.Choice("op", 3)
	var err error
	switch op {
	case 0:
		err = fs.Rm("/s/t")
	case 1:
		err = fs.RemoveWithContext(ctx, "/s/t")
	case 2:
		err = fs.CleanDirWithContext(ctx, "/s/t")
	}
	lfs.before = nil
	after := lfs.snapshot()
	verif.Assert("nothing_outside_the_tree_is_touched", vSameEntries(before, vOutsideOf(after)))
	left := 0
	for _, e := range after {
		if vPathInside("/s/t", e.path) && e.path != "/s/t" {
			left++
		}
	}
	rootLeft := lfs.nodes["/s/t"] != nil
	if err == nil {
		verif.Assert("success_means_the_tree_is_gone", left == 0 && (op == 2 || !rootLeft))
	}
	if faulted {
		verif.Reach("fault_injected")
	}
	verif.Assert("handles_balanced", lfs.opens == lfs.closes)
}
