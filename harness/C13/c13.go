package logs

import (
	"github.com/go-logr/logr"
	"strings"

	"github.com/ARM-software/golang-utils/utils/zz_verif/verif"
)

func vCountLine(content, line string) int {
	n := 0
	for _, l := range strings.Split(content, "\n") {
		if l == line {
			n++
		}
	}
	return n
}

func vOnlyTheseLines(content string, lines ...string) bool {
	for _, l := range strings.Split(content, "\n") {
		if l == "" {
			continue
		}
		ok := false
		for _, want := range lines {
			if l == want {
				ok = true
			}
		}
		if !ok {
			return false
		}
	}
	return true
}

// VerifC13_PlainStringLogger: two producers on the output and error streams of
// the string logger, every interleaving with up to 2 preemptions.
func VerifC13_PlainStringLogger() {
	verif.ExploreSchedules(2)
	loggers, err := NewPlainStringLogger()
	verif.Assume(err == nil) // precondition of this harness ("constructor"), not a clause of the property
	done := make(chan bool, 2)
	go func() {
		loggers.Log("ab")
		done <- true
	}()
	go func() {
		if verif.Bool("secondUsesErrorStream") {
			loggers.LogError("cd")
		} else {
			loggers.Log("cd")
		}
		done <- true
	}()
	<-done
	<-done
	content := loggers.GetLogContent()
	verif.Assert("every_message_exactly_once", vCountLine(content, "ab") == 1 && vCountLine(content, "cd") == 1)
	verif.Assert("nothing_but_the_messages", vOnlyTheseLines(content, "ab", "cd"))
}

// recorder is a Loggers double for the composite loggers.
type vRecorder struct {
	out, err []string
}

func (r *vRecorder) Close() error                       { return nil }
func (r *vRecorder) Check() error                       { return nil }
func (r *vRecorder) SetLogSource(source string) error    { return nil }
func (r *vRecorder) SetLoggerSource(source string) error { return nil }
func (r *vRecorder) Log(output ...interface{}) {
	for _, o := range output {
		s, _ := o.(string)
		old := r.out
		verif.Yield("mem") // an unsynchronised append is a read-modify-write
		r.out = append(old[:len(old):len(old)], s)
	}
}
func (r *vRecorder) LogError(err ...interface{}) {
	for _, o := range err {
		s, _ := o.(string)
		old := r.err
		verif.Yield("mem")
		r.err = append(old[:len(old):len(old)], s)
	}
}

func vHasOnce(list []string, s string) bool {
	n := 0
	for _, e := range list {
		if e == s {
			n++
		}
	}
	return n == 1
}

// VerifC13_CombinedLoggers: a composite delivers every message to every member.
func VerifC13_CombinedLoggers() {
	verif.ExploreSchedules(2)
	m1, m2 := &vRecorder{}, &vRecorder{}
	combined, err := NewCombinedLoggers(m1, m2)
	verif.Assume(err == nil) // precondition of this harness ("constructor"), not a clause of the property
	done := make(chan bool, 2)
	go func() {
		combined.Log("ab")
		done <- true
	}()
	go func() {
		combined.LogError("cd")
		done <- true
	}()
	<-done
	<-done
	for _, m := range []*vRecorder{m1, m2} {
		verif.Assert("every_member_gets_every_message_once", vHasOnce(m.out, "ab") && vHasOnce(m.err, "cd") && len(m.out) == 1 && len(m.err) == 1)
	}
}

// VerifC13_AppendWhileLogging: a member appended concurrently either gets the
// message or not, but the existing member always does, exactly once.
func VerifC13_AppendWhileLogging() {
	verif.ExploreSchedules(2)
	m1, m2 := &vRecorder{}, &vRecorder{}
	combined, err := NewCombinedLoggers(m1)
	verif.Assume(err == nil) // precondition of this harness ("constructor"), not a clause of the property
	done := make(chan bool, 2)
	go func() {
		combined.Log("ab")
		done <- true
	}()
	go func() {
		verif.Assume(combined.Append(m2) == nil) // precondition of this harness ("append_ok"), not a clause of the property
		done <- true
	}()
	<-done
	<-done
	verif.Assert("existing_member_gets_the_message_once", vHasOnce(m1.out, "ab") && len(m1.out) == 1)
	verif.Assert("new_member_gets_it_at_most_once", len(m2.out) <= 1)
	combined.Log("zz")
	verif.Assert("after_append_both_members_get_messages", vHasOnce(m1.out, "zz") && vHasOnce(m2.out, "zz"))
}

// VerifC13_ConcurrentAppends: members appended concurrently are all kept.
func VerifC13_ConcurrentAppends() {
	verif.ExploreSchedules(2)
	m1, m2, m3 := &vRecorder{}, &vRecorder{}, &vRecorder{}
	combined, err := NewCombinedLoggers(m1)
	verif.Assume(err == nil) // precondition of this harness ("constructor"), not a clause of the property
	done := make(chan bool, 3)
	go func() {
		verif.Assume(combined.Append(m2) == nil) // precondition of this harness ("append_ok"), not a clause of the property
		done <- true
	}()
	go func() {
		verif.Assume(combined.Append(m3) == nil) // precondition of this harness ("append_ok"), not a clause of the property
		done <- true
	}()
	withLog := verif.Bool("logMeanwhile")
	if withLog {
		go func() {
			combined.Log("ab")
			done <- true
		}()
		<-done
	}
	<-done
	<-done
	combined.LogError("zz")
	for _, m := range []*vRecorder{m1, m2, m3} {
		verif.Assert("every_appended_member_is_kept", vHasOnce(m.err, "zz") && len(m.err) == 1)
	}
	verif.Assert("existing_member_gets_each_message_once", !withLog || (vHasOnce(m1.out, "ab") && len(m1.out) == 1))
}

// VerifC13_OwnsItsMemberList: the composite keeps its own member list: what the
// caller later does with the slice it passed in does not add, drop or replace members.
func VerifC13_OwnsItsMemberList() {
	m1, m2, stranger := &vRecorder{}, &vRecorder{}, &vRecorder{}
	members := make([]Loggers, 1, 4)
	members[0] = m1
	var combined IMultipleLoggers
	var err error
	if verif.Bool("withLoggerSource") {
		combined, err = NewMultipleLoggers("src", members...)
	} else {
		combined, err = NewCombinedLoggers(members...)
	}
	verif.Assume(err == nil) // precondition of this harness ("constructor"), not a clause of the property
	verif.Assume(combined.Append(m2) == nil) // precondition of this harness ("append_ok"), not a clause of the property
	switch verif.Choice("callerThen", 3) {
	case 0:
		members = append(members, stranger) // reuses the spare capacity of the caller's slice
	case 1:
		members[0] = stranger
	case 2:
	}
	combined.Log("ab")
	verif.Assert("members_get_the_message", vHasOnce(m1.out, "ab") && vHasOnce(m2.out, "ab"))
	verif.Assert("non_members_get_nothing", len(stranger.out) == 0)
	_ = members
}

// vLogrSink is a logr sink double: it records every message together with the
// log source its logger carried (the last "source" value added by WithValues).
type vLogrSink struct {
	values []interface{}
	rec    *[]vLogrMsg
}

type vLogrMsg struct {
	text, source string
}

func (s *vLogrSink) lastSource() string {
	src := ""
	for i := 0; i+1 < len(s.values); i += 2 {
		if k, ok := s.values[i].(string); ok && k == KeyLogSource {
			src, _ = s.values[i+1].(string)
		}
	}
	return src
}
func (s *vLogrSink) Init(info logr.RuntimeInfo) {}
func (s *vLogrSink) Enabled(level int) bool   { return true }
func (s *vLogrSink) Info(level int, msg string, kv ...interface{}) {
	*s.rec = append(*s.rec, vLogrMsg{msg, s.lastSource()})
}
func (s *vLogrSink) Error(err error, msg string, kv ...interface{}) {
	*s.rec = append(*s.rec, vLogrMsg{msg, s.lastSource()})
}
func (s *vLogrSink) WithValues(kv ...interface{}) logr.LogSink {
	n := &vLogrSink{rec: s.rec}
	n.values = append(append([]interface{}{}, s.values...), kv...)
	return n
}
func (s *vLogrSink) WithName(name string) logr.LogSink { return s }

// VerifC13_CombinedWithLogrMember: a composite over the library's own logr
// adapter (which has no lock of its own) used by two goroutines that both set
// the log source: afterwards the source the adapter reports and the source its
// messages carry agree (no lost update), and a message logged meanwhile is
// delivered exactly once.
func VerifC13_CombinedWithLogrMember() {
	verif.ExploreSchedules(2)
	verif.ExploreMemory(true)
	var rec []vLogrMsg
	member, err := NewLogrLogger(logr.New(&vLogrSink{rec: &rec}), "src")
	verif.Assume(err == nil) // precondition of this harness ("constructor"), not a clause of the property
	combined, err := NewCombinedLoggers(member)
	verif.Assume(err == nil) // precondition of this harness ("constructor"), not a clause of the property
	second := verif.Choice("second", 2) // what the other goroutine does: set another source / log a message
	done := make(chan bool, 2)
	go func() {
		_ = combined.SetLogSource("B")
		done <- true
	}()
	go func() {
		if second == 0 {
			_ = combined.SetLogSource("C")
		} else {
			combined.Log("during")
		}
		done <- true
	}()
	<-done
	<-done
	combined.Log("after")
	lm := member.(*logrLogger)
	n := len(rec)
	verif.Assert("message_delivered", n >= 1 && rec[n-1].text == "after\n")
	verif.Assert("messages_carry_the_source_the_logger_reports", rec[n-1].source == lm.logSource.Load())
	if second == 1 {
		verif.Assert("concurrent_message_delivered_exactly_once", n == 2 && rec[0].text == "during\n")
	}
}

// VerifC13_LogrAdapterAlone: the same, on the logr adapter itself (no
// composite around it to serialise its callers).
func VerifC13_LogrAdapterAlone() {
	verif.ExploreSchedules(2)
	verif.ExploreMemory(true)
	var rec []vLogrMsg
	member, err := NewLogrLogger(logr.New(&vLogrSink{rec: &rec}), "src")
	verif.Assume(err == nil) // precondition of this harness ("constructor"), not a clause of the property
	second := verif.Choice("second", 2)
	done := make(chan bool, 2)
	go func() {
		_ = member.SetLogSource("B")
		done <- true
	}()
	go func() {
		if second == 0 {
			_ = member.SetLogSource("C")
		} else {
			member.Log("during")
		}
		done <- true
	}()
	<-done
	<-done
	member.Log("after")
	lm := member.(*logrLogger)
	n := len(rec)
	verif.Assert("message_delivered", n >= 1 && rec[n-1].text == "after\n")
	verif.Assert("messages_carry_the_source_the_logger_reports", rec[n-1].source == lm.logSource.Load())
	if second == 1 {
		verif.Assert("concurrent_message_delivered_exactly_once", n == 2 && rec[0].text == "during\n")
	}
}
