package logs

import (
	"strings"
	"errors"
	"io"
	"log"

	"github.com/ARM-software/golang-utils/utils/zz_verif/verif"
)

// vFaultySink is a member of a composite writer with a scripted behaviour.
type vFaultySink struct {
	mode   int // 0 healthy, 1 always fails, 2 short writes, 3 fails on its second message only
	calls  int
	got    []string
	closed bool
}

func (s *vFaultySink) Write(p []byte) (int, error) {
	s.calls++
	switch {
	case s.mode == 1, s.mode == 3 && s.calls == 2:
		return 0, errors.New("verif: sink unavailable")
	case s.mode == 2:
		s.got = append(s.got, string(p[:len(p)/2]))
		return len(p) / 2, io.ErrShortWrite
	}
	s.got = append(s.got, string(p))
	return len(p), nil
}
func (s *vFaultySink) Close() error                  { s.closed = true; return nil }
func (s *vFaultySink) SetSource(source string) error { return nil }

// VerifC13_CompositeWriterFaults: a composite writer delivers every message
// to every healthy member whatever the other members answer, through the real
// log.Logger front end of the generic loggers.
func VerifC13_CompositeWriterFaults() {
	n := verif.Len("members", 1, 3)
	var sinks []*vFaultySink
	var members []WriterWithSource
	for k := 0; k < n; k++ {
		s := &vFaultySink{mode: verif.Choice("mode", 4)}
		sinks = append(sinks, s)
		members = append(members, s)
	}
	w, err := NewMultipleWritersWithSource(members...)
	verif.Assume(err == nil && w != nil) // precondition of this harness ("constructor"), not a clause of the property
	loggers := &GenericLoggers{Output: log.New(w, "", 0), Error: log.New(w, "", 0)}
	loggers.Log("m1")
	loggers.LogError("m2")
	loggers.Log("m3")
	for _, s := range sinks {
		verif.Assert("every_member_is_offered_every_message", s.calls == 3)
		switch s.mode {
		case 0:
			verif.Assert("healthy_member_got_everything", len(s.got) == 3 && s.got[0] == "m1\n" && s.got[1] == "m2\n" && s.got[2] == "m3\n")
		case 3:
			verif.Assert("recovered_member_got_the_rest", len(s.got) == 2 && s.got[0] == "m1\n" && s.got[1] == "m3\n")
		}
	}
	verif.Assume(w.Close() == nil) // precondition of this harness ("close"), not a clause of the property
	for _, s := range sinks {
		verif.Observe("every_member_closed", s.closed) // observed, not asserted: not a clause of this property
	}
}

// VerifC13_AsynchronousFrontEnd: the front end of the ring-buffered logger
// hands each message to its writer (the ring buffer) in ONE Write holding one
// complete line -- a message is one entry of the ring, so it can neither be
// split by another producer nor be dropped by halves.
func VerifC13_AsynchronousFrontEnd() {
	out, errs := &vFaultySink{}, &vFaultySink{}
	l := &AsynchronousLoggers{oWriter: out, eWriter: errs, loggerSource: "src"}
	verif.Assume(l.Check() == nil) // precondition of this harness ("check"), not a clause of the property
	n := verif.Len("messages", 1, 3)
	for i := 0; i < n; i++ {
		if verif.Bool("toError") {
			l.LogError("m", i, "tail")
		} else {
			l.Log("m", i, "tail")
		}
	}
	verif.Assert("one_write_per_message", len(out.got)+len(errs.got) == n)
	for _, s := range append(append([]string{}, out.got...), errs.got...) {
		verif.Assert("each_write_is_one_complete_line", len(s) > 0 && s[len(s)-1] == '\n' && strings.Count(s, "\n") == 1)
		verif.Assert("the_line_carries_source_and_message", strings.Contains(s, "[src]") && strings.Contains(s, "tail"))
	}
	verif.Assume(l.Close() == nil && out.closed && errs.closed) // precondition of this harness ("close"), not a clause of the property
}

// vBufferingMember is a member that hands its messages to its sink when it is
// closed (as a buffered or asynchronous logger does), and whose Close may fail.
type vBufferingMember struct {
	pending  []string
	sink     []string
	closeErr error
}

func (b *vBufferingMember) Check() error                        { return nil }
func (b *vBufferingMember) SetLogSource(source string) error    { return nil }
func (b *vBufferingMember) SetLoggerSource(source string) error { return nil }
func (b *vBufferingMember) Log(output ...interface{}) {
	for _, o := range output {
		s, _ := o.(string)
		b.pending = append(b.pending, s)
	}
}
func (b *vBufferingMember) LogError(err ...interface{}) { b.Log(err...) }
func (b *vBufferingMember) Close() error {
	if b.closeErr != nil {
		return b.closeErr
	}
	b.sink = append(b.sink, b.pending...)
	b.pending = nil
	return nil
}

// VerifC13_CloseFlushesEveryMember: members that only deliver on Close lose
// nothing when the composite is closed, whichever other member fails to close.
func VerifC13_CloseFlushesEveryMember() {
	n := verif.Len("members", 2, 3)
	failing := verif.Choice("failingMember", 4) // 3: none (also when n == 2 and the choice is 2)
	var members []*vBufferingMember
	var list []Loggers
	for i := 0; i < n; i++ {
		m := &vBufferingMember{}
		if i == failing {
			m.closeErr = errors.New("verif: member cannot be closed")
		}
		members = append(members, m)
		list = append(list, m)
	}
	combined, err := NewCombinedLoggers(list...)
	verif.Assume(err == nil) // precondition of this harness ("constructor"), not a clause of the property
	combined.Log("ab")
	combined.LogError("cd")
	cerr := combined.Close()
	verif.Observe("close_failed", cerr != nil)
	for i, m := range members {
		if i == failing {
			continue
		}
		count := func(s string) (k int) {
			for _, e := range m.sink {
				if e == s {
					k++
				}
			}
			return
		}
		verif.Assert("every_member_gets_every_message_once", len(m.sink) == 2 && count("ab") == 1 && count("cd") == 1)
	}
}
