package hashing

import (
	"context"
	"encoding/hex"
	"errors"
	"io"

	"github.com/ARM-software/golang-utils/utils/commonerrors"
	"github.com/ARM-software/golang-utils/utils/zz_verif/verif"
)

// recHash abstracts the compression function: the "digest" is the exact byte
// sequence written since the last Reset (an injective function of it), so
// "digest == reference digest of the content" becomes "record == content",
// for every algorithm at once.
type recHash struct {
	data []byte
}

func (h *recHash) Write(p []byte) (int, error) { h.data = append(h.data, p...); return len(p), nil }
func (h *recHash) Sum(b []byte) []byte         { return append(b, h.data...) }
func (h *recHash) Reset()                      { h.data = nil }
func (h *recHash) Size() int                   { return 0 }
func (h *recHash) BlockSize() int              { return 1 }

var errVerifRead = errors.New("verif: injected read failure")

// scriptReader delivers content in symbolic chunk sizes and can fail or
// cancel a context once `at` bytes have been delivered.
type scriptReader struct {
	content []byte
	pos     int
	failAt  int // -1: never
	cancel  context.CancelFunc
	cancAt  int // -1: never
	// eofWithData: the read that delivers the last bytes reports io.EOF at the same time
	// (allowed by io.Reader, done by e.g. compress/flate)
	eofWithData bool
}

func (r *scriptReader) Read(p []byte) (int, error) {
	if r.cancAt >= 0 && r.pos >= r.cancAt && r.cancel != nil {
		r.cancel()
		r.cancel = nil
	}
	if r.failAt >= 0 && r.pos >= r.failAt {
		return 0, errVerifRead
	}
	if r.pos >= len(r.content) {
		return 0, io.EOF
	}
	rem := len(r.content) - r.pos
	if r.failAt >= 0 && r.failAt-r.pos < rem {
		rem = r.failAt - r.pos
	}
	if r.cancAt > r.pos && r.cancAt-r.pos < rem {
		rem = r.cancAt - r.pos
	}
	if len(p) < rem {
		rem = len(p)
	}
	n := rem
	if rem > 1 {
		n = verif.Len("chunk", 1, rem)
	}
	copy(p, r.content[r.pos:r.pos+n])
	r.pos += n
	if r.eofWithData && r.pos == len(r.content) && r.failAt < 0 {
		return n, io.EOF
	}
	return n, nil
}

// VerifC20_History: 1..3 calculations on the same hasher object; every
// successful one must return the digest of exactly its own content.
func VerifC20_History() {
	maxCalcs, maxLen := 2, 2
	if verif.Tier() > 0 {
		maxCalcs, maxLen = 3, 3
	}
	rec := &recHash{}
	h, err := NewBespokeHashingAlgorithm(rec)
	verif.Assume(err == nil && h != nil) // precondition of this harness ("constructor"), not a clause of the property
	ncalc := verif.Len("ncalc", 1, maxCalcs)
	for c := 0; c < ncalc; c++ {
		n := verif.Len("len", 0, maxLen)
		content := verif.Bytes("content", n)
		outcome := verif.Choice("outcome", 4) // 0 ok, 1 reader fails at byte k, 2 context cancelled at byte k, 3 through the string helper
		if outcome == 3 {
			digest := CalculateStringHash(h, string(content))
			verif.Observe("digest", digest)
			verif.Assert("digest_is_of_own_content", digest == hex.EncodeToString(content))
			continue
		}
		r := &scriptReader{content: content, failAt: -1, cancAt: -1}
		if n > 0 && outcome == 0 {
			r.eofWithData = verif.Bool("eofWithData")
		}
		ctx := context.Background()
		var cancel context.CancelFunc
		switch outcome {
		case 1:
			r.failAt = verif.Len("k", 0, n)
		case 2:
			ctx, cancel = context.WithCancel(ctx)
			r.cancel = cancel
			r.cancAt = verif.Len("k", 0, n)
		}
		digest, err := h.CalculateWithContext(ctx, r)
		if cancel != nil {
			cancel()
		}
		switch outcome {
		case 0:
			verif.Assert("success", err == nil)
			verif.Observe("digest", digest)
			verif.Assert("digest_is_of_own_content", digest == hex.EncodeToString(content))
		case 1:
			verif.Observe("read_error_reported", err != nil && digest == "") // observed, not asserted: not a clause of this property
		case 2:
			// the cancellation lands inside a Read: the calculation may still complete
			// (then its digest must be right) or report the cancellation
			if err == nil {
				verif.Assert("digest_is_of_own_content", digest == hex.EncodeToString(content))
			} else {
				verif.Observe("cancel_reported", commonerrors.Any(err, commonerrors.ErrCancelled) && digest == "") // observed only: the property speaks about the digests of calculations that succeed
			}
		}
	}
}

// VerifC20_StringHash: CalculateStringHash over the same abstraction.
func VerifC20_StringHash() {
	rec := &recHash{}
	h, _ := NewBespokeHashingAlgorithm(rec)
	n := verif.Len("len", 0, 3)
	s := verif.String("text", n)
	d1 := CalculateStringHash(h, s)
	d2 := CalculateStringHash(h, s)
	verif.Assert("string_hash", d1 == hex.EncodeToString([]byte(s)))
	verif.Assert("repeatable", d1 == d2)
}
