package hashing

import (
	"context"
	"crypto/md5"  //nolint:gosec
	"crypto/sha1" //nolint:gosec
	"crypto/sha256"
	"encoding/hex"
	"io"

	"github.com/OneOfOne/xxhash"
	"github.com/spaolacci/murmur3"
	"golang.org/x/crypto/blake2b"

	"github.com/ARM-software/golang-utils/utils/zz_verif/verif"
)

// fixedChunks delivers concrete content in chunks of a chosen size, optionally
// failing (or ending the context) after `stopAt` bytes.
type fixedChunks struct {
	content []byte
	pos     int
	chunk   int
	stopAt  int // -1: never
	cancel  context.CancelFunc
}

func (r *fixedChunks) Read(p []byte) (int, error) {
	if r.stopAt >= 0 && r.pos >= r.stopAt {
		if r.cancel != nil {
			r.cancel()
			r.cancel = nil
		} else {
			return 0, errVerifReadReal
		}
	}
	if r.pos >= len(r.content) {
		return 0, io.EOF
	}
	n := r.chunk
	if n > len(p) {
		n = len(p)
	}
	if n > len(r.content)-r.pos {
		n = len(r.content) - r.pos
	}
	if r.stopAt > r.pos && r.stopAt-r.pos < n {
		n = r.stopAt - r.pos
	}
	copy(p, r.content[r.pos:r.pos+n])
	r.pos += n
	return n, nil
}

var errVerifReadReal = io.ErrClosedPipe

// the reference: the one-shot functions of the standard implementations
func vReference(algo string, content []byte) string {
	switch algo {
	case HashMd5:
		s := md5.Sum(content) //nolint:gosec
		return hex.EncodeToString(s[:])
	case HashSha1:
		s := sha1.Sum(content) //nolint:gosec
		return hex.EncodeToString(s[:])
	case HashSha256:
		s := sha256.Sum256(content)
		return hex.EncodeToString(s[:])
	case HashBlake2256:
		s := blake2b.Sum256(content)
		return hex.EncodeToString(s[:])
	case HashXXHash:
		h := xxhash.New64()
		_, _ = h.Write(content)
		return hex.EncodeToString(h.Sum(nil))
	case HashMurmur:
		h := murmur3.New64()
		_, _ = h.Write(content)
		return hex.EncodeToString(h.Sum(nil))
	}
	return ""
}

// digests of the empty input, from the algorithms' specifications
var vEmptyDigests = map[string]string{
	HashMd5:       "d41d8cd98f00b204e9800998ecf8427e",
	HashSha1:      "da39a3ee5e6b4b0d3255bfef95601890afd80709",
	HashSha256:    "e3b0c44298fc1c149afbf4c8996fb92427ae41e4649b934ca495991b7852b855",
	HashBlake2256: "0e5751c026e543b2e8ab2eb06099daa1d1e5df47778f7787faab45cdf12fe3a8",
	HashXXHash:    "ef46db3751d8e999",
}

// VerifC20_RealAlgorithms: the six real algorithms (their pure-Go code) on
// concrete contents whose lengths sit around the block sizes, for several
// chunkings, after a previous calculation on the same hasher that succeeded,
// failed or was cancelled midway: the digest is the one-shot reference digest.
func VerifC20_RealAlgorithms() {
	// (murmur3-64 is missing: spaolacci/murmur3 reinterprets its input through unsafe.Pointer in every
	// build, which the engine cannot follow)
	algos := []string{HashMd5, HashSha1, HashSha256, HashBlake2256, HashXXHash}
	algo := algos[verif.Choice("algo", len(algos))]
	lengths := []int{0, 1, 31, 32, 33, 55, 56, 63, 64, 65, 127, 128, 129}
	if verif.Tier() > 0 {
		lengths = append(lengths, 255, 256, 257, 1000)
	}
	L := lengths[verif.Choice("L", len(lengths))]
	content := make([]byte, L)
	for i := range content {
		content[i] = byte(7*i + 3)
	}
	chunk := []int{1, 13, 64, 1 << 20}[verif.Choice("chunk", 4)]
	if verif.Symbolic() && algo == HashXXHash {
		// the engine has to run the pure-Go "safe" backend of OneOfOne/xxhash (the default one reinterprets
		// memory through unsafe.Pointer); that backend -- not used by default builds -- mishandles inputs whose
		// length is a multiple of 32 written in chunks shorter than 32 bytes (reproduced natively with -tags safe)
		verif.Assume(!(L > 0 && L%32 == 0 && chunk < 32))
	}
	h, err := NewHashingAlgorithm(algo)
	verif.Assume(err == nil && h != nil) // precondition of this harness ("constructor"), not a clause of the property
	if e, ok := vEmptyDigests[algo]; ok {
		verif.Assert("known_answer_for_the_empty_input", vReference(algo, nil) == e)
	}
	// an earlier calculation on the same hasher
	prev := []byte("an earlier, unrelated content of some length, long enough to span a block boundary....")
	switch verif.Choice("history", 4) {
	case 1:
		_, perr := h.Calculate(&fixedChunks{content: prev, chunk: 16, stopAt: -1})
		verif.Assume(perr == nil) // precondition of this harness ("earlier_calculation_ok"), not a clause of the property
	case 2:
		_, perr := h.Calculate(&fixedChunks{content: prev, chunk: 16, stopAt: 40})
		verif.Assume(perr != nil) // precondition of this harness ("earlier_calculation_failed"), not a clause of the property
	case 3:
		ctx, cancel := context.WithCancel(context.Background())
		_, _ = h.CalculateWithContext(ctx, &fixedChunks{content: prev, chunk: 16, stopAt: 40, cancel: cancel})
		cancel()
	}
	digest, err := h.Calculate(&fixedChunks{content: content, chunk: chunk, stopAt: -1})
	verif.Assert("success", err == nil)
	verif.Observe("digest", digest)
	verif.Assert("digest_is_the_reference_digest", digest == vReference(algo, content))
	verif.Assert("string_helper_agrees", CalculateHash(string(content), algo) == digest)
}
