// Package verif is the harness support library. Under the symbolic engine
// (gosym) every function here is intercepted by name and given its symbolic
// meaning; compiled natively the same functions read their values from the
// replay file named by VERIF_REPLAY, so that a harness is its own replay test.
package verif

import (
	"encoding/json"
	"fmt"
	"math"
	"os"
	"runtime"
	"strconv"
	"sync"
	"time"
)

type replayFile struct {
	Harness string            `json:"harness"`
	Tier    int               `json:"tier"`
	Inputs  map[string]string `json:"inputs"`
}

var (
	once    sync.Once
	replay  replayFile
	counter = map[string]int{}
	mu      sync.Mutex
	// Failed collects the assertion ids that failed during a native run.
	Failed []string
)

func load() {
	once.Do(func() {
		replay.Inputs = map[string]string{}
		f := os.Getenv("VERIF_REPLAY")
		if f == "" {
			return
		}
		b, err := os.ReadFile(f)
		if err != nil {
			panic("verif: cannot read replay file: " + err.Error())
		}
		if err := json.Unmarshal(b, &replay); err != nil {
			panic("verif: bad replay file: " + err.Error())
		}
	})
}

// Harness returns the harness name requested by the replay file.
func Harness() string { load(); return replay.Harness }

// Tier is 0 for the quick tier and 1 for the thorough tier.
func Tier() int { load(); return replay.Tier }

// Symbolic reports whether the harness runs under the symbolic engine.
func Symbolic() bool { return false }

func fresh(name string) string {
	mu.Lock()
	defer mu.Unlock()
	k := counter[name]
	counter[name] = k + 1
	return fmt.Sprintf("%s#%d", name, k)
}

func lookup(full string) (string, bool) {
	load()
	v, ok := replay.Inputs[full]
	if !ok {
		fmt.Printf("VERIF-MISSING %s\n", full)
	}
	return v, ok
}

func geti(name string) int64 {
	v, ok := lookup(fresh(name))
	if !ok {
		return 0
	}
	n, err := strconv.ParseInt(v, 10, 64)
	if err != nil {
		u, err2 := strconv.ParseUint(v, 10, 64)
		if err2 != nil {
			panic("verif: bad integer " + v)
		}
		return int64(u)
	}
	return n
}

func getu(name string) uint64 {
	v, ok := lookup(fresh(name))
	if !ok {
		return 0
	}
	u, err := strconv.ParseUint(v, 10, 64)
	if err != nil {
		n, err2 := strconv.ParseInt(v, 10, 64)
		if err2 != nil {
			panic("verif: bad integer " + v)
		}
		return uint64(n)
	}
	return u
}

func Bool(name string) bool {
	v, _ := lookup(fresh(name))
	return v == "true"
}
func Int8(name string) int8       { return int8(geti(name)) }
func Int16(name string) int16     { return int16(geti(name)) }
func Int32(name string) int32     { return int32(geti(name)) }
func Int64(name string) int64     { return geti(name) }
func IntAny(name string) int      { return int(geti(name)) }
func Uint8(name string) uint8     { return uint8(getu(name)) }
func Uint16(name string) uint16   { return uint16(getu(name)) }
func Uint32(name string) uint32   { return uint32(getu(name)) }
func Uint64(name string) uint64   { return getu(name) }
func UintAny(name string) uint    { return uint(getu(name)) }
func Float32(name string) float32 {
	v, ok := lookup(fresh(name))
	if !ok {
		return 0
	}
	b, err := strconv.ParseUint(v, 0, 32)
	if err != nil {
		panic("verif: bad float32 bits " + v)
	}
	return math.Float32frombits(uint32(b))
}
func Float64(name string) float64 {
	v, ok := lookup(fresh(name))
	if !ok {
		return 0
	}
	b, err := strconv.ParseUint(v, 0, 64)
	if err != nil {
		panic("verif: bad float64 bits " + v)
	}
	return math.Float64frombits(b)
}

// Int is a symbolic int in [lo, hi].
func Int(name string, lo, hi int) int {
	if lo == hi {
		return lo
	}
	return int(geti(name))
}

// Len is an int in [lo, hi] explored one value per path.
func Len(name string, lo, hi int) int { return Int(name, lo, hi) }

// Choice is an index in [0, n) explored one value per path.
func Choice(name string, n int) int { return Int(name, 0, n-1) }

// Bytes returns n symbolic bytes.
func Bytes(name string, n int) []byte {
	base := fresh(name)
	b := make([]byte, n)
	for k := range b {
		v, ok := lookup(fmt.Sprintf("%s[%d]", base, k))
		if ok {
			u, _ := strconv.ParseUint(v, 10, 8)
			b[k] = byte(u)
		}
	}
	return b
}

// String returns a string of n symbolic bytes.
func String(name string, n int) string { return string(Bytes(name, n)) }

type skipReplay struct{}

// Assume restricts the inputs; natively a false assumption means the replay
// file does not belong to this path.
func Assume(c bool) {
	if !c {
		fmt.Println("VERIF-ASSUME-FALSE")
		panic(skipReplay{})
	}
}

// Assert states the property.
func Assert(id string, c bool) {
	if !c {
		fmt.Printf("VERIF-ASSERT-FAIL %s\n", id)
		mu.Lock()
		Failed = append(Failed, id)
		mu.Unlock()
		return
	}
	fmt.Printf("VERIF-ASSERT-OK %s\n", id)
}

// AssertKnown is Assert whose failures inside inRegion are attributed to the
// known finding findingID.
func AssertKnown(id string, c bool, findingID string, inRegion bool) {
	if !c {
		fmt.Printf("VERIF-ASSERT-FAIL %s known=%s region=%v\n", id, findingID, inRegion)
		mu.Lock()
		Failed = append(Failed, id)
		mu.Unlock()
		return
	}
	fmt.Printf("VERIF-ASSERT-OK %s\n", id)
}

// Reach marks a program point for the vacuity check.
func Reach(id string) {}

// Stop ends the current path.
func Stop() { panic(skipReplay{}) }

// Observe records a value for translator validation.
func Observe(name string, v any) {
	fmt.Printf("VERIF-OBSERVE %s=%s\n", fresh(name), render(v))
}

func render(v any) string {
	switch v := v.(type) {
	case nil:
		return "nil"
	case bool:
		return fmt.Sprint(v)
	case float32:
		return fmt.Sprintf("f32:0x%08x", math.Float32bits(v))
	case float64:
		return fmt.Sprintf("f64:0x%016x", math.Float64bits(v))
	case string:
		return fmt.Sprintf("s:%x", v)
	case []byte:
		parts := ""
		for k, b := range v {
			if k > 0 {
				parts += ","
			}
			parts += fmt.Sprint(b)
		}
		return "[" + parts + "]"
	case []string:
		parts := ""
		for k, s := range v {
			if k > 0 {
				parts += ","
			}
			parts += fmt.Sprintf("s:%x", s)
		}
		return "[" + parts + "]"
	case []int:
		parts := ""
		for k, s := range v {
			if k > 0 {
				parts += ","
			}
			parts += fmt.Sprint(s)
		}
		return "[" + parts + "]"
	case error:
		return "err:" + v.Error()
	case int, int8, int16, int32, int64, uint, uint8, uint16, uint32, uint64, uintptr:
		return fmt.Sprint(v)
	case fmt.Stringer:
		return "err:" + v.String()
	}
	return fmt.Sprintf("<%T>", v)
}

// And, Or, Not, Implies build conditions without branching (under the engine
// Go's && and || fork paths; these do not).
func And(a, b bool) bool     { return a && b }
func Or(a, b bool) bool      { return a || b }
func Not(a bool) bool        { return !a }
func Implies(a, b bool) bool { return !a || b }

func IteInt(c bool, a, b int) int {
	if c {
		return a
	}
	return b
}
func IteInt64(c bool, a, b int64) int64 {
	if c {
		return a
	}
	return b
}
func IteUint64(c bool, a, b uint64) uint64 {
	if c {
		return a
	}
	return b
}

// Concrete forces a symbolic integer to a concrete value (one path per value).
func Concrete(x int) int { return x }

// ConcreteString forces every byte of s to a concrete value.
func ConcreteString(s string) string { return s }

// ExploreSchedules turns on exploration of goroutine interleavings.
func ExploreSchedules(preemptionBound int) {}

// NoSpawn(true) makes `go` statements record their goroutine without running it.
func NoSpawn(on bool) {}

// RunSpawned runs the k-th recorded goroutine inline.
func RunSpawned(k int) bool { return false }

// Unsupported aborts the path as not encodable.
func Unsupported(why string) { panic(skipReplay{}) }

// RunReplay runs the harness named in the replay file; it returns the failed
// assertion ids.
func RunReplay(harnesses map[string]func()) (failed []string, err error) {
	load()
	h, ok := harnesses[replay.Harness]
	if !ok {
		return nil, fmt.Errorf("no harness %q", replay.Harness)
	}
	func() {
		defer func() {
			if r := recover(); r != nil {
				if _, skip := r.(skipReplay); skip {
					return
				}
				fmt.Printf("VERIF-PANIC %v\n", r)
				mu.Lock()
				Failed = append(Failed, "panic")
				mu.Unlock()
			}
		}()
		h()
	}()
	fmt.Println("VERIF-DONE")
	return Failed, nil
}

// Itoa is the decimal text of x. Under the engine the text of a symbolic x is
// opaque: only strconv.ParseInt / Atoi can read it back (as x).
func Itoa(x int64) string { return strconv.FormatInt(x, 10) }

// Advance lets d of (virtual) time pass, like time.Sleep.
func Advance(d time.Duration) { time.Sleep(d) }

// Yield marks a scheduling point (used by harness doubles in schedule exploration).
func Yield(what string) { runtime.Gosched() }

// KnownDeadlockIf attributes a deadlock detected by the engine to the known
// finding id when *cond holds at that moment.
func KnownDeadlockIf(id string, cond *bool) {}

// KnownCrashIf attributes an uncaught panic / runtime fatal error to the
// known finding id when *cond holds at that moment.
func KnownCrashIf(id string, cond *bool) {}

// ExploreMemory makes every load/store of non-local memory a scheduling point
// (on top of ExploreSchedules): unsynchronised read-modify-write sequences can
// then interleave, as they do on a real multiprocessor.
func ExploreMemory(on bool) {}
