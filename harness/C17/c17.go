package filesystem

import (
	"context"
	"syscall"
	"time"

	"github.com/ARM-software/golang-utils/utils/commonerrors"
	"github.com/ARM-software/golang-utils/utils/zz_verif/verif"
)

const vPeriod = 50 * time.Millisecond // lockHeartBeatPeriod of NewGenericRemoteLockFile

// VerifC17_LiveLockIsNeverStale: while the holder is alive its lock is never
// reported stale, never released by ReleaseIfStale and never taken over,
// whatever the observation instants over several heartbeat periods.
func VerifC17_LiveLockIsNeverStale() {
	lfs, cs := vLockSetup(true)
	A, B := cs[0], cs[1]
	ctx := context.Background()
	verif.Assume(A.tryLock(ctx) == nil) // precondition of this harness ("acquire"), not a clause of the property
	observations := 3
	steps := []time.Duration{0, time.Millisecond, 49 * time.Millisecond, 50 * time.Millisecond, 51 * time.Millisecond, 99 * time.Millisecond, 101 * time.Millisecond, 333 * time.Millisecond}
	if verif.Tier() > 0 {
		// longer holds rather than more observations (24^4 schedules of observations is already 330k paths)
		steps = append(steps, time.Second, 2500*time.Millisecond, 7*time.Second)
	}
	n := verif.Len("observations", 1, observations)
	for k := 0; k < n; k++ {
		verif.Advance(steps[verif.Choice("wait", len(steps))])
		switch verif.Choice("observer", 3) {
		case 0:
			verif.Assert("live_lock_not_stale", !B.lock.IsStale())
		case 1:
			verif.Assert("release_if_stale_is_a_no_op", B.lock.ReleaseIfStale(ctx) == nil)
			_, _, e := lfs.LstatIfPossible(A.lock.lockPath())
			verif.Assert("live_lock_survives_release_if_stale", e == nil)
		case 2:
			err := B.tryLock(ctx)
			verif.Assert("live_lock_not_taken_over", err != nil && commonerrors.Any(err, commonerrors.ErrLocked))
		}
	}
	verif.Assume(A.unlock(ctx) == nil) // precondition of this harness ("release"), not a clause of the property
}

// VerifC17_DeadLockRecovers: the holder dies at one of four points; after the
// bounded delay the lock is reported stale and ReleaseIfStale + acquire succeed.
func VerifC17_DeadLockRecovers() {
	lfs, cs := vLockSetup(false)
	A, B := cs[0], cs[1]
	ctx := context.Background()
	lockDir := A.lock.lockPath()
	// how a holder dies: its process stops (the heartbeat with it), or the context it acquired the lock with ends
	// without a release -- the property ties the heartbeat to "the holder is alive and its context not cancelled"
	actx, acancel := context.WithCancel(ctx)
	defer acancel()
	byContext := verif.Bool("diesByContextCancellation")
	die := func() {
		if byContext {
			acancel()
		} else {
			A.die()
		}
	}
	switch verif.Choice("deathPoint", 4) {
	case 0: // right after creating the lock directory
		verif.Assume(lfs.Mkdir(lockDir, 0o755) == nil) // precondition of this harness ("setup"), not a clause of the property
	case 1: // after the directory was stamped, before the first heartbeat
		verif.Assume(lfs.Mkdir(lockDir, 0o755) == nil) // precondition of this harness ("setup"), not a clause of the property
		now := time.Now()
		verif.Assume(lfs.Chtimes(lockDir, now, now) == nil) // precondition of this harness ("setup"), not a clause of the property
	case 2: // after the first heartbeat write
		verif.Assume(A.tryLock(actx) == nil) // precondition of this harness ("setup"), not a clause of the property
		verif.Advance(time.Millisecond)
		die()
	case 3: // in steady state
		verif.Assume(A.tryLock(actx) == nil) // precondition of this harness ("setup"), not a clause of the property
		verif.Advance(175 * time.Millisecond)
		die()
	}
	A.holds = false
	// not yet: a lock whose last sign of life is at most two periods old is not stale
	early := []time.Duration{0, 50 * time.Millisecond, 100 * time.Millisecond}
	w := early[verif.Choice("early", len(early))]
	verif.Advance(w)
	if w+time.Millisecond <= 2*vPeriod-vPeriod { // the last heartbeat may be up to one period old at death
		verif.Assert("not_stale_too_early", !B.lock.IsStale())
	}
	// bounded delay: two periods after the last possible sign of life (+1 ms of truncation)
	verif.Advance(2*vPeriod + 2*time.Millisecond - w)
	verif.Assert("dead_lock_reported_stale_within_bound", B.lock.IsStale())
	verif.Assert("release_if_stale_succeeds", B.lock.ReleaseIfStale(ctx) == nil)
	verif.Assert("acquire_after_recovery", B.tryLock(ctx) == nil)
	verif.Assume(B.unlock(ctx) == nil) // precondition of this harness ("release"), not a clause of the property
}

// VerifC17_StaleOnlyAfterTwoPeriods: soundness at the boundary, for ages of the
// last sign of life around 2 periods (millisecond truncation included).
func VerifC17_StaleOnlyAfterTwoPeriods() {
	lfs, cs := vLockSetup(false)
	B := cs[1]
	lockDir := B.lock.lockPath()
	hb := B.lock.heartBeatFile(lockDir)
	verif.Assume(lfs.Mkdir(lockDir, 0o755) == nil) // precondition of this harness ("setup"), not a clause of the property
	withFile := verif.Bool("heartbeatFilePresent")
	ages := []time.Duration{0, 99 * time.Millisecond, 100 * time.Millisecond, 100*time.Millisecond + 999*time.Microsecond, 101 * time.Millisecond, 500 * time.Millisecond}
	age := ages[verif.Choice("age", len(ages))]
	stamp := time.Now().Add(-age)
	old := time.Now().Add(-time.Hour)
	if withFile {
		f, err := lfs.Create(hb)
		verif.Assume(err == nil && f.Close() == nil) // precondition of this harness ("setup"), not a clause of the property
		verif.Assume(lfs.Chtimes(hb, stamp, stamp) == nil) // precondition of this harness ("setup"), not a clause of the property
		verif.Assert("setup", lfs.Chtimes(lockDir, old, old) == nil) // the directory's own age must not matter
	} else {
		verif.Assume(lfs.Chtimes(lockDir, stamp, stamp) == nil) // precondition of this harness ("setup"), not a clause of the property
	}
	// natively a little real time passes around the call: bracket the decision instant
	before := time.Since(stamp)
	stale := B.lock.IsStale()
	after := time.Since(stamp)
	if stale {
		verif.Assert("stale_only_after_more_than_two_periods", after.Milliseconds() > 2*vPeriod.Milliseconds())
	} else {
		verif.Assert("older_than_two_periods_is_stale", before.Milliseconds() <= 2*vPeriod.Milliseconds())
	}
	// a failing backend must never make a lock look stale: every operation failing ...
	lfs.before = func(op *vOp) error { return commonerrors.ErrUnexpected }
	verif.Assert("backend_failure_is_not_staleness", !B.lock.IsStale())
	// ... or only the k-th one (e.g. the listing works but the heartbeat file cannot be read)
	failAt := verif.Len("failAt", 1, 14)
	count := 0
	lfs.before = func(op *vOp) error {
		count++
		if count == failAt {
			return pathErr(op.name, op.path, syscall.EIO)
		}
		return nil
	}
	staleUnderFault := B.lock.IsStale()
	lfs.before = nil
	if staleUnderFault {
		verif.Assert("single_backend_failure_is_not_staleness", age > 2*vPeriod)
	}
}

// VerifC17_SlowStorage: every backend operation takes some (virtual) time --
// storage latency, I/O load -- for a long hold: the live holder's lock still
// never looks stale as long as one beat's overhead stays below a period.
func VerifC17_SlowStorage() {
	lfs, cs := vLockSetup(false)
	A, B := cs[0], cs[1]
	ctx := context.Background()
	latency := []time.Duration{time.Millisecond, 3 * time.Millisecond}[verif.Choice("latencyPerOperation", 2)]
	lfs.before = func(op *vOp) error {
		verif.Advance(latency)
		return nil
	}
	verif.Assume(A.tryLock(ctx) == nil) // precondition of this harness ("acquire"), not a clause of the property
	periods := 25
	if verif.Tier() > 0 {
		periods = 60
	}
	for k := 0; k < periods; k++ {
		verif.Advance(vPeriod)
		verif.Assert("live_lock_not_stale", !B.lock.IsStale())
	}
	lfs.before = nil
	verif.Assume(A.unlock(ctx) == nil) // precondition of this harness ("release"), not a clause of the property
}

// VerifC17_TransientHeartbeatFault: one backend operation of the heartbeat
// writer fails once (EMFILE, ENOSPC, EIO ...): the holder is alive, so its lock
// must still never look stale afterwards -- the next beat repairs the damage.
func VerifC17_TransientHeartbeatFault() {
	lfs, cs := vLockSetup(false)
	A, B := cs[0], cs[1]
	ctx := context.Background()
	verif.Assume(A.tryLock(ctx) == nil) // precondition of this harness ("acquire"), not a clause of the property
	lockDir := A.lock.lockPath()
	failAt := verif.Len("failAt", 1, 24) // the k-th operation below the lock directory from now on
	count := 0
	lfs.before = func(op *vOp) error {
		below := len(op.path) > len(lockDir) && op.path[:len(lockDir)] == lockDir
		if below && op.name != "Close" {
			count++
			if count == failAt {
				return pathErr(op.name, op.path, syscall.EIO)
			}
		}
		return nil
	}
	for k := 0; k < 8; k++ {
		verif.Advance(vPeriod)
		// the observer's own probes must not be the ones that fail: count only while it is not looking
		saved := lfs.before
		lfs.before = nil
		stale := B.lock.IsStale()
		lfs.before = saved
		verif.Assert("live_lock_not_stale", !stale)
	}
	lfs.before = nil
	verif.Assume(A.unlock(ctx) == nil) // precondition of this harness ("release"), not a clause of the property
}
