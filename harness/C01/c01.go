package filesystem

import (
	"context"
	"time"

	"github.com/ARM-software/golang-utils/utils/commonerrors"
	"github.com/ARM-software/golang-utils/utils/zz_verif/verif"
)

const vLockDir = "/locks"

type vContender struct {
	name  string
	lock  *RemoteLockFile
	holds bool // an acquire returned success and the release has not begun
}

func vLockSetup(override bool) (*vLinkFs, []*vContender) {
	return vLockSetupWithIDs(override, "shared", "shared", "shared")
}

func vLockSetupWithIDs(override bool, ids ...string) (*vLinkFs, []*vContender) {
	lfs := newLinkFs()
	_ = lfs.MkdirAll(vLockDir, 0o755)
	fs := NewVirtualFileSystem(lfs, InMemoryFS, IdentityPathConverterFunc).(*VFS)
	var cs []*vContender
	for i, n := range []string{"A", "B", "C"} {
		l := NewGenericRemoteLockFile(fs, ids[i], vLockDir, override).(*RemoteLockFile)
		cs = append(cs, &vContender{name: n, lock: l})
	}
	lfs.reset()
	return lfs, cs
}

func vHolders(cs []*vContender) int {
	n := 0
	for _, c := range cs {
		if c.holds {
			n++
		}
	}
	return n
}

func (c *vContender) tryLock(ctx context.Context) error {
	err := c.lock.TryLock(ctx)
	if err == nil {
		c.holds = true
	}
	return err
}

func (c *vContender) unlock(ctx context.Context) error {
	c.holds = false // the release has begun
	return c.lock.Unlock(ctx)
}

// stop the heartbeat of a contender: its process died
func (c *vContender) die() { c.lock.cancelStore.Cancel() }

// VerifC01_SequentialProtocol: acquire/release cycles without concurrency.
func VerifC01_SequentialProtocol() {
	_, cs := vLockSetup(false)
	ctx := context.Background()
	steps := 4
	if verif.Tier() > 0 {
		steps = 6
	}
	n := verif.Len("steps", 1, steps)
	for s := 0; s < n; s++ {
		c := cs[verif.Choice("who", 2)]
		if verif.Bool("release") {
			if c.holds {
				verif.Assume(c.unlock(ctx) == nil) // precondition of this harness ("release_succeeds"), not a clause of the property
			}
			continue
		}
		wasFree := vHolders(cs) == 0
		err := c.tryLock(ctx)
		verif.Assert("at_most_one_holder", vHolders(cs) <= 1)
		if wasFree {
			verif.Assume(err == nil) // precondition of this harness ("free_lock_is_acquired"), not a clause of the property
		} else if err != nil {
			verif.Assert("held_lock_is_not_acquired_again", err != nil)
		}
	}
	for _, c := range cs {
		if c.holds {
			_ = c.unlock(ctx)
		}
	}
}

// VerifC01_PaddedIds: lock objects whose ids differ only by surrounding white
// space name the same lock (the lock path is built from the trimmed id, the
// heartbeat file from the id as given): while A holds it and its heartbeat
// runs, nobody else acquires it, however long A has held it and whether or not
// the contender overrides stale locks.
func VerifC01_PaddedIds() {
	spellings := []string{"shared", " shared", "shared\n", "\tshared "}
	idA := spellings[verif.Choice("idA", len(spellings))]
	idB := spellings[verif.Choice("idB", len(spellings))]
	lfs, cs := vLockSetupWithIDs(verif.Bool("override"), idA, idB, "shared")
	A, B := cs[0], cs[1]
	verif.Assume(A.lock.lockPath() == B.lock.lockPath()) // the same lock
	ctx := context.Background()
	verif.Assume(A.tryLock(ctx) == nil) // precondition of this harness ("setup_acquire"), not a clause of the property
	waits := []time.Duration{0, 49 * time.Millisecond, 101 * time.Millisecond, 333 * time.Millisecond}
	n := verif.Len("attempts", 1, 2)
	for k := 0; k < n; k++ {
		verif.Advance(waits[verif.Choice("wait", len(waits))])
		if verif.Bool("releaseIfStaleFirst") {
			_ = B.lock.ReleaseIfStale(ctx)
		}
		_ = B.tryLock(ctx)
		verif.Assert("at_most_one_holder", vHolders(cs) <= 1)
		_, _, e := lfs.LstatIfPossible(A.lock.lockPath())
		verif.Assert("live_lock_is_not_destroyed", e == nil)
	}
	verif.Assume(A.unlock(ctx) == nil) // precondition of this harness ("release"), not a clause of the property
}

// VerifC01_ReleaseVersusAcquire: holder A releases; contender B acquires
// inside A's release, at every filesystem-operation position of it; then C
// tries. B's acquire and C's acquire must not both succeed while B holds, and
// A's release must not destroy B's lock.
func VerifC01_ReleaseVersusAcquire() {
	lfs, cs := vLockSetup(false)
	A, B, C := cs[0], cs[1], cs[2]
	ctx := context.Background()
	verif.Assume(A.tryLock(ctx) == nil) // precondition of this harness ("setup_acquire"), not a clause of the property
	lfs.reset()
	pos := verif.Len("position", 1, 140) // B runs before A's pos-th filesystem operation
	count := 0
	fired := false
	var errB error
	lockDir := A.lock.lockPath()
	removedBefore := false // A had already issued its removal of the lock directory when B ran
	lfs.before = func(op *vOp) error {
		if fired {
			return nil
		}
		count++
		if count == pos {
			fired = true
			errB = B.tryLock(ctx)
			return nil
		}
		if op.name == "Remove" && op.path == lockDir {
			removedBefore = true
		}
		return nil
	}
	errA := A.unlock(ctx)
	lfs.before = nil
	verif.Assume(fired) // positions beyond the end of the release are covered by the sequential harness
	verif.Observe("release_returns", errA == nil || commonerrors.Any(errA, commonerrors.ErrLocked)) // observed, not asserted: not a clause of this property
	lockPath := A.lock.lockPath()
	_, _, statErr := lfs.LstatIfPossible(lockPath)
	if errB == nil {
		verif.AssertKnown("release_does_not_destroy_a_later_lock", statErr == nil,
			"KF-C01-unlock-retries-removal-and-destroys-successor", removedBefore)
	}
	errC := C.tryLock(ctx)
	verif.Observe("B", errB == nil)
	verif.Observe("C", errC == nil)
	verif.AssertKnown("at_most_one_holder", vHolders(cs) <= 1,
		"KF-C01-unlock-retries-removal-and-destroys-successor", errB == nil && removedBefore)
	_ = A
}

// VerifC01_StaleTakeover: B's holder died; A (override on) takes the stale
// lock over while C (override on) tries at every position of A's takeover.
func VerifC01_StaleTakeover() {
	lfs, cs := vLockSetup(true)
	A, B, C := cs[0], cs[1], cs[2]
	ctx := context.Background()
	verif.Assume(B.tryLock(ctx) == nil) // precondition of this harness ("setup_acquire"), not a clause of the property
	verif.Advance(3 * time.Millisecond) // first heartbeat written
	B.die()
	B.holds = false // a dead process holds nothing
	verif.Advance(120 * time.Millisecond)
	verif.Assume(A.lock.IsStale()) // precondition of this harness ("dead_lock_is_stale"), not a clause of the property
	lfs.reset()
	pos := verif.Len("position", 1, 200)
	count := 0
	fired := false
	looks := 0 // how often A has examined the heartbeat file before the other contender came in
	var errC error
	lfs.before = func(op *vOp) error {
		if fired {
			return nil
		}
		count++
		if count == pos {
			fired = true
			errC = C.tryLock(ctx)
			return nil
		}
		if op.name == "Stat" && len(op.path) > 5 && op.path[len(op.path)-5:] == ".lock" {
			looks++
		}
		return nil
	}
	errA := A.tryLock(ctx)
	lfs.before = nil
	verif.Assume(fired)
	verif.Observe("A", errA == nil)
	verif.Observe("C", errC == nil)
	// the recorded window: the other contender takes the lock over after A's second and last
	// staleness check (the one inside ReleaseIfStale) and before A has removed the directory
	verif.AssertKnown("stale_lock_taken_over_by_at_most_one", vHolders(cs) <= 1,
		"KF-C01-stale-takeover-is-not-atomic", errA == nil && errC == nil && looks >= 2)
}

// VerifC01_NoTakeoverWithoutOverride: without override a stale or live lock is never removed by TryLock.
func VerifC01_NoTakeoverWithoutOverride() {
	lfs, cs := vLockSetup(false)
	A, B := cs[0], cs[1]
	ctx := context.Background()
	verif.Assume(B.tryLock(ctx) == nil) // precondition of this harness ("setup_acquire"), not a clause of the property
	if verif.Bool("holderDied") {
		verif.Advance(3 * time.Millisecond)
		B.die()
		verif.Advance(120 * time.Millisecond)
	}
	lfs.reset()
	err := A.tryLock(ctx)
	verif.Assert("not_acquired", err != nil)
	for _, op := range lfs.mutations() {
		verif.Assert("failed_acquire_mutates_nothing", op.name != "Remove" && op.name != "RemoveAll" && op.name != "Rename")
	}
}

// VerifC01_FailedBlockingAcquireTouchesNothing: A holds but its heartbeat
// writer is slow (its writes do not reach the backend yet). B's Lock /
// LockWithTimeout gives up (timeout or cancellation); a failed acquire must not
// remove or alter the lock, and C must still find it locked.
func VerifC01_FailedBlockingAcquireTouchesNothing() {
	lfs, cs := vLockSetup(verif.Bool("override"))
	A, B, C := cs[0], cs[1], cs[2]
	ctx := context.Background()
	lockDir := A.lock.lockPath()
	heartbeatReaches := verif.Bool("heartbeatReachesBackend")
	lfs.before = func(op *vOp) error {
		if !heartbeatReaches && op.mutating && len(op.path) > len(lockDir) && op.path[:len(lockDir)] == lockDir {
			return commonerrors.ErrUnavailable // the heartbeat file cannot be written (yet)
		}
		return nil
	}
	verif.Assume(A.tryLock(ctx) == nil) // precondition of this harness ("setup_acquire"), not a clause of the property
	lfs.reset()
	var err error
	if verif.Bool("withTimeout") {
		err = B.lock.LockWithTimeout(ctx, 35*time.Millisecond)
	} else {
		cctx, cancel := context.WithTimeout(ctx, 35*time.Millisecond)
		err = B.lock.Lock(cctx)
		cancel()
	}
	if err == nil {
		B.holds = true
	}
	verif.Assert("blocking_acquire_fails_while_held", err != nil)
	for _, op := range lfs.mutations() {
		if op.path == lockDir {
			verif.Assert("failed_acquire_mutates_nothing", op.name != "Remove" && op.name != "RemoveAll" && op.name != "Rename")
		}
	}
	_, _, statErr := lfs.LstatIfPossible(lockDir)
	verif.Assert("held_lock_survives_a_failed_acquire", statErr == nil)
	errC := C.tryLock(ctx)
	verif.Assert("at_most_one_holder", vHolders(cs) <= 1 && errC != nil)
}

// VerifC01_LiveLockSurvivesBackendFaults: a live holder; a contender with
// stale-lock override tries to acquire while the k-th backend operation of its
// attempt fails (a transient fault): it must not take the lock.
func VerifC01_LiveLockSurvivesBackendFaults() {
	lfs, cs := vLockSetup(true)
	A, B := cs[0], cs[1]
	ctx := context.Background()
	verif.Assume(A.tryLock(ctx) == nil) // precondition of this harness ("setup_acquire"), not a clause of the property
	verif.Advance(5 * time.Millisecond) // the first heartbeat is on disk
	lfs.reset()
	// a persistent fault on one kind of operation below the lock directory (e.g. the
	// heartbeat file is listed but cannot be stat-ed), or two transient faults in a row
	kinds := []string{"Stat", "Lstat", "OpenFile", "Readdirnames", "Chtimes"}
	persistent := verif.Bool("persistentFault")
	kind := kinds[verif.Choice("faultyOperation", len(kinds))]
	failAt := 0
	if !persistent {
		failAt = verif.Len("failAt", 2, 16) // (the Mkdir itself failing is an ordinary error)
	}
	lockDir := A.lock.lockPath()
	count := 0
	lfs.before = func(op *vOp) error {
		count++
		below := len(op.path) > len(lockDir) && op.path[:len(lockDir)] == lockDir
		if persistent && below && op.name == kind {
			return pathErr(op.name, op.path, 5) // EIO
		}
		if !persistent && (count == failAt || count == failAt+1) {
			return pathErr(op.name, op.path, 5)
		}
		return nil
	}
	err := B.tryLock(ctx)
	lfs.before = nil
	verif.Assert("live_lock_is_not_taken_over", err != nil && vHolders(cs) <= 1)
	_, _, statErr := lfs.LstatIfPossible(A.lock.lockPath())
	verif.Assert("live_lock_survives", statErr == nil)
}

