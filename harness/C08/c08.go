package filesystem

import (
	"bytes"
	"archive/zip"
	"context"
	"os"
	"regexp"

	"github.com/spf13/afero"

	"github.com/ARM-software/golang-utils/utils/commonerrors"
	"github.com/ARM-software/golang-utils/utils/zz_verif/verif"
)

type vTreeNode struct {
	rel   []string // components below the root
	dir   bool
	depth int
}

func vNames(depth int) []string { return []string{"a", "b"} }

var vPatterns = []string{"a", "b", "ab", "a.*", ".*b", "[ab]", "a.b", "b.a"}

// vGenTree creates a tree of depth <= 2 under root on fs and returns its nodes.
func vGenTree(fs FS, root string) []vTreeNode {
	var nodes []vTreeNode
	_ = fs.MkDir(root)
	for _, n1 := range vNames(1) {
		switch verif.Choice("k1", 3) { // absent, file, dir
		case 1:
			_ = fs.WriteFile(root+"/"+n1, []byte("1"), 0o644)
			nodes = append(nodes, vTreeNode{rel: []string{n1}, depth: 1})
		case 2:
			_ = fs.MkDir(root + "/" + n1)
			nodes = append(nodes, vTreeNode{rel: []string{n1}, dir: true, depth: 1})
			for _, n2 := range vNames(2) {
				switch verif.Choice("k2", 3) {
				case 1:
					_ = fs.WriteFile(root+"/"+n1+"/"+n2, []byte("2"), 0o644)
					nodes = append(nodes, vTreeNode{rel: []string{n1, n2}, depth: 2})
				case 2:
					_ = fs.MkDir(root + "/" + n1 + "/" + n2)
					nodes = append(nodes, vTreeNode{rel: []string{n1, n2}, dir: true, depth: 2})
				}
			}
		}
	}
	return nodes
}

// vPickPatterns: no pattern or one of the eight; in the thorough tier optionally a
// second one from three representatives (a plain name, a prefix expression, a
// class). The full square of the list, and a third name in the trees, are
// beyond the wall limit of the thorough tier (see DESIGN 0.6).
func vPickPatterns() []string {
	n := verif.Len("npat", 0, 1)
	var ps []string
	for i := 0; i < n; i++ {
		ps = append(ps, vPatterns[verif.Choice("pat", len(vPatterns))])
	}
	if n == 1 && verif.Tier() > 0 {
		second := []string{"", "b", "a.*", "[ab]"}
		if p := second[verif.Choice("pat2", len(second))]; p != "" {
			ps = append(ps, p)
		}
	}
	return ps
}

// reference semantics, straight from the statement of the property
func vFullMatch(pats []string, name string) bool {
	for _, p := range pats {
		if regexp.MustCompile("^(?:" + p + ")$").MatchString(name) {
			return true
		}
	}
	return false
}
func vPartialMatch(pats []string, name string) bool {
	for _, p := range pats {
		if regexp.MustCompile(p).MatchString(name) {
			return true
		}
	}
	return false
}

// protected: a component of the entry (itself or an ancestor) is matched in full.
func vProtected(pats []string, n vTreeNode) bool {
	for _, c := range n.rel {
		if vFullMatch(pats, c) {
			return true
		}
	}
	return false
}

// mustProcess: no component contains a match.
func vMustProcess(pats []string, n vTreeNode) bool {
	for _, c := range n.rel {
		if vPartialMatch(pats, c) {
			return false
		}
	}
	return true
}

// straddles: no component of the entry contains a match, yet a pattern matches
// the entry's path across a separator (e.g. b.a against b/a).
func vStraddles(pats []string, n vTreeNode) bool {
	return n.depth == 2 && vMustProcess(pats, n) && vPartialMatch(pats, n.rel[0]+"/"+n.rel[1])
}

func vAbs(root string, n vTreeNode) string {
	p := root
	for _, c := range n.rel {
		p += "/" + c
	}
	return p
}

func vContains(list []string, s string) bool {
	for _, e := range list {
		if e == s {
			return true
		}
	}
	return false
}

func vNewFs() (*vRecFs, FS) {
	rec := newRecFs(afero.NewMemMapFs())
	return rec, NewVirtualFileSystem(rec, InMemoryFS, IdentityPathConverterFunc)
}

// VerifC08_Listings: walk, ls, recursive ls, tree listing, sub-directories.
func VerifC08_Listings() {
	_, fs := vNewFs()
	op := verif.Choice("op", 6)
	if (op == 1 || op == 3 || op == 4) && verif.Bool("backslashSeparator") {
		// ls, tree listing and sub-directories also on a filesystem that declares '\\' as its path separator
		// (the separator is written into the expressions derived from each pattern). The walk-based
		// operations are left out: over this '/'-based in-memory backend they fail without any pattern,
		// which says something about that combination of backend and separator, not about exclusions.
		fs = NewVirtualFileSystemWithPathSeparator(newRecFs(afero.NewMemMapFs()), InMemoryFS, IdentityPathConverterFunc, '\\')
	}
	const root = "/r"
	nodes := vGenTree(fs, root)
	pats := vPickPatterns()
	ctx := context.Background()
	var reported []string
	var err error
	maxDepth, dirsOnly := 2, false
	switch op {
	case 0:
		err = fs.WalkWithContextAndExclusionPatterns(ctx, root, func(p string, info os.FileInfo, e error) error {
			reported = append(reported, p)
			return e
		}, pats...)
	case 1:
		var names []string
		names, err = fs.LsWithExclusionPatterns(root, pats...)
		for _, n := range names {
			reported = append(reported, root+"/"+n)
		}
		maxDepth = 1
	case 2:
		reported, err = fs.LsRecursiveWithExclusionPatterns(ctx, root, true, pats...)
	case 3:
		err = fs.ListDirTreeWithContextAndExclusionPatterns(ctx, root, &reported, pats...)
	case 4:
		var names []string
		names, err = fs.SubDirectoriesWithContextAndExclusionPatterns(ctx, root, pats...)
		for _, n := range names {
			reported = append(reported, root+"/"+n)
		}
		maxDepth, dirsOnly = 1, true
	case 5:
		// what ends up in an archive of the tree (read back with the real zip reader)
		err = fs.ZipWithContextAndLimitsAndExclusionPatterns(ctx, root, "/out.zip", NoLimits(), pats...)
		if err == nil {
			data, rerr := fs.ReadFile("/out.zip")
			verif.Assume(rerr == nil) // precondition of this harness ("archive_readable"), not a clause of the property
			zr, zerr := zip.NewReader(bytes.NewReader(data), int64(len(data)))
			verif.Assume(zerr == nil) // precondition of this harness ("archive_readable"), not a clause of the property
			for _, f := range zr.File {
				name := f.Name
				if len(name) > 0 && name[len(name)-1] == '/' {
					name = name[:len(name)-1]
				}
				reported = append(reported, root+"/"+name)
			}
		}
	}
	verif.Assert("listing_succeeds", err == nil)
	verif.Observe("reported", len(reported))
	for _, n := range nodes {
		in := vContains(reported, vAbs(root, n))
		if vProtected(pats, n) {
			verif.Assert("protected_entries_are_not_reported", !in)
		}
		if vMustProcess(pats, n) && n.depth <= maxDepth && (!dirsOnly || n.dir) {
			verif.Assert("unmatched_entries_are_reported", in)
		}
	}
}

// VerifC08_Copy: copies skip protected entries and copy every unmatched one.
func VerifC08_Copy() {
	rec, fs := vNewFs()
	const root = "/r"
	nodes := vGenTree(fs, root)
	pats := vPickPatterns()
	err := fs.CopyWithContextAndExclusionPatterns(context.Background(), root, "/dst", pats...)
	verif.Assert("copy_succeeds", err == nil)
	snap := vSnapshot(rec.inner, "/dst")
	for _, n := range nodes {
		suffix := ""
		for _, c := range n.rel {
			suffix += "/" + c
		}
		found := false
		for _, s := range snap {
			if len(s.path) >= len(suffix) && s.path[len(s.path)-len(suffix):] == suffix && s.dir == n.dir {
				found = true
			}
		}
		if vProtected(pats, n) {
			verif.Assert("protected_entries_are_not_copied", !found)
		}
		if vMustProcess(pats, n) {
			verif.AssertKnown("unmatched_entries_are_copied", found, "KF-C08-pattern-matches-across-separator", vStraddles(pats, n))
		}
	}
}

// VerifC08_Removal: clean / remove keep protected entries (and their ancestors)
// and delete every unmatched entry that is not an ancestor of a protected one.
func VerifC08_Removal() {
	rec, fs := vNewFs()
	const root = "/r"
	nodes := vGenTree(fs, root)
	pats := vPickPatterns()
	ctx := context.Background()
	clean := verif.Bool("cleanOnly")
	var err error
	if clean {
		err = fs.CleanDirWithContextAndExclusionPatterns(ctx, root, pats...)
	} else {
		err = fs.RemoveWithContextAndExclusionPatterns(ctx, root, pats...)
	}
	verif.Assert("removal_succeeds", err == nil)
	exists := func(p string) bool {
		_, e := rec.inner.Stat(p)
		return e == nil
	}
	anyProtected := false
	for _, n := range nodes {
		if vProtected(pats, n) {
			anyProtected = true
		}
	}
	for _, n := range nodes {
		p := vAbs(root, n)
		if vProtected(pats, n) {
			// nested: protected only through its own name at depth 2 (its parent is not protected)
			nested := n.depth == 2 && !vFullMatch(pats, n.rel[0])
			verif.AssertKnown("protected_entries_survive", exists(p), "KF-C08-nested-protection-lost-in-removal", nested)
			continue
		}
		hasProtectedChild, hasStraddlingChild := false, false
		for _, m := range nodes {
			if m.depth == 2 && n.depth == 1 && m.rel[0] == n.rel[0] {
				if vProtected(pats, m) {
					hasProtectedChild = true
				}
				if vStraddles(pats, m) {
					hasStraddlingChild = true // kept by the known finding, and its parent with it
				}
			}
		}
		if vMustProcess(pats, n) && !hasProtectedChild {
			verif.AssertKnown("unmatched_entries_are_removed", !exists(p), "KF-C08-pattern-matches-across-separator", vStraddles(pats, n) || hasStraddlingChild)
		}
	}
	if !anyProtected && !clean {
		anyStraddling := false
		for _, n := range nodes {
			if vStraddles(pats, n) {
				anyStraddling = true
			}
		}
		verif.AssertKnown("root_removed_when_nothing_protected", !exists(root), "KF-C08-pattern-matches-across-separator", anyStraddling)
	}
	if clean {
		verif.Assert("clean_keeps_the_directory", exists(root))
	}
}

// VerifC08_InvalidPattern: rejected with the 'invalid' kind before anything is touched.
func VerifC08_InvalidPattern() {
	rec, fs := vNewFs()
	const root = "/r"
	nodes := vGenTree(fs, root)
	before := vSnapshot(rec.inner, "/")
	rec.reset()
	ctx := context.Background()
	bad := []string{"a", "("}
	var err error
	if verif.Bool("listSeenBefore") {
		// the same list has already been rejected once in this process: it is rejected every time
		_, first := NewExclusionRegexList(fs.PathSeparator(), bad...)
		verif.Assert("invalid_pattern_rejected", first != nil && commonerrors.Any(first, commonerrors.ErrInvalid))
	}
	op := verif.Choice("op", 7)
	switch op {
	case 0:
		err = fs.WalkWithContextAndExclusionPatterns(ctx, root, func(p string, info os.FileInfo, e error) error { return e }, bad...)
	case 1:
		_, err = fs.LsWithExclusionPatterns(root, bad...)
	case 2:
		_, err = fs.LsRecursiveWithExclusionPatterns(ctx, root, true, bad...)
	case 3:
		var l []string
		err = fs.ListDirTreeWithContextAndExclusionPatterns(ctx, root, &l, bad...)
	case 4:
		err = fs.CopyWithContextAndExclusionPatterns(ctx, root, "/dst", bad...)
	case 5:
		err = fs.CleanDirWithContextAndExclusionPatterns(ctx, root, bad...)
	case 6:
		err = fs.RemoveWithContextAndExclusionPatterns(ctx, root, bad...)
	}
	verif.Assert("invalid_pattern_rejected", err != nil && commonerrors.Any(err, commonerrors.ErrInvalid))
	_ = nodes
	verif.Assert("nothing_touched", len(rec.mutations()) == 0 && vSameTree(before, vSnapshot(rec.inner, "/")))
}

// VerifC08_PatternIsolation: each pattern of a set means what it means alone --
// flags, groups or alternations of one pattern must not leak into another, and
// a set containing an invalid pattern is invalid whatever its neighbours are.
func VerifC08_PatternIsolation() {
	rec, fs := vNewFs()
	const root = "/r"
	_ = fs.MkDir(root)
	var nodes []vTreeNode
	for _, n := range []string{"a", "b", "B", "ab"} {
		if verif.Bool("present") {
			_ = fs.WriteFile(root+"/"+n, []byte("1"), 0o644)
			nodes = append(nodes, vTreeNode{rel: []string{n}, depth: 1})
		}
	}
	// pairs with inline flags / alternations, and pairs in which the text of one pattern is itself matched by the
	// other (each pattern must keep its own effect whatever else is in the list, in either order)
	sets := [][]string{{"(?i)a", "b"}, {"b", "(?i)a"}, {"a|", "b"}, {"(?s)a", "B"}, {"a$", "^b"},
		{"a", "[ab]"}, {"[ab]", "a"}, {"a", "a*b"}, {"a*b", "a"}, {"b", "ab|B"}, {"a", "a"},
		// a blank pattern in a list is skipped, nothing else
		{"", "a"}, {"b", "", "a"}, {" ", "b"}}
	invalid := [][]string{{"(a", "b)"}, {"(", ")"}, {"a", "b)"}, {"[a", "b]"}, {"a", "a["}, {"a[", "a"}}
	ctx := context.Background()
	if verif.Bool("invalidSet") {
		pats := invalid[verif.Choice("set", len(invalid))]
		before := vSnapshot(rec.inner, "/")
		rec.reset()
		var err error
		switch verif.Choice("op", 4) {
		case 0:
			_, err = fs.LsWithExclusionPatterns(root, pats...)
		case 1:
			err = fs.CopyWithContextAndExclusionPatterns(ctx, root, "/dst", pats...)
		case 2:
			_, err = fs.LsRecursiveWithExclusionPatterns(ctx, root, true, pats...)
		case 3:
			_, err = NewExclusionRegexList('/', pats...)
		}
		verif.Assert("invalid_pattern_rejected", err != nil && commonerrors.Any(err, commonerrors.ErrInvalid))
		verif.Assert("nothing_touched", len(rec.mutations()) == 0 && vSameTree(before, vSnapshot(rec.inner, "/")))
		return
	}
	pats := sets[verif.Choice("set", len(sets))]
	names, err := fs.LsWithExclusionPatterns(root, pats...)
	verif.Assert("listing_succeeds", err == nil)
	for _, n := range nodes {
		in := vContains(names, n.rel[0])
		if vProtected(pats, n) {
			verif.Assert("protected_entries_are_not_reported", !in)
		}
		if vMustProcess(pats, n) {
			verif.Assert("unmatched_entries_are_reported", in)
		}
	}
}
