package filesystem

import (
	"context"

	"github.com/spf13/afero"

	"github.com/ARM-software/golang-utils/utils/commonerrors"
	"github.com/ARM-software/golang-utils/utils/zz_verif/verif"
)

// entry kinds of the archive generator
const (
	vkFile = iota // "f<i>"
	vkDir         // "d<i>/"
	vkInDir       // "d/g<i>"
	vkDeep        // "d/e/h<i>"
	vkDeepDir     // "d/e/m<i>/": an explicit directory entry two levels down
	vkDeflated    // "z<i>": 600 highly compressible bytes (more than the whole archive), stored deflated
	vkNested      // "n<i>.zip" holding an archive of its own
	vkFakeZip     // "k<i>.zip" that is not an archive
	vkKinds
)

type vArchiveStats struct {
	files     int64  // regular files that end up on disk
	total     uint64 // their total size
	maxFile   int64  // largest of them
	maxDepth  int64  // deepest entry (0 = directly in the destination)
	lying     bool   // some header contradicts its data
	lyingShort bool  // ... by declaring fewer bytes than are stored
	nestedAny bool
}

func vContent(n int) []byte {
	b := make([]byte, n)
	for i := range b {
		b[i] = byte('a' + i)
	}
	return b
}

// vGenEntries draws up to maxEntries entries; nested archives draw their own (smaller) content.
func vGenEntries(tag string, maxEntries int, allowNested bool, recursive bool, depthBase int64, st *vArchiveStats) []vEntry {
	n := verif.Len(tag+"entries", 1, maxEntries)
	var entries []vEntry
	for i := 0; i < n; i++ {
		kinds := vkKinds
		if !allowNested {
			kinds = vkNested
		}
		kind := verif.Choice(tag+"kind", kinds)
		size := 2
		if kind == vkFile && allowNested {
			size = 2 * verif.Choice(tag+"size", 2) // 0 or 2 bytes
		}
		idx := string(rune('0' + i))
		var name string
		var depth int64
		switch kind {
		case vkFile:
			name, depth = "f"+idx, 0
		case vkDir:
			entries = append(entries, vEntry{name: "d" + idx + "/", declared: -1})
			if depthBase > st.maxDepth {
				st.maxDepth = depthBase
			}
			continue
		case vkDeepDir:
			entries = append(entries, vEntry{name: "d/e/m" + idx + "/", declared: -1})
			if depthBase+2 > st.maxDepth {
				st.maxDepth = depthBase + 2
			}
			continue
		case vkDeflated:
			name, depth, size = "z"+idx, 0, 600
		case vkInDir:
			name, depth = "d/g"+idx, 1
		case vkDeep:
			name, depth = "d/e/h"+idx, 2
		case vkFakeZip:
			name, depth = "k"+idx+".zip", 0
		case vkNested:
			name, depth = "n"+idx+".zip", 0
			inner := &vArchiveStats{}
			sub := vGenEntries(tag+"n", 1, false, recursive, depthBase+1, inner)
			blob := vBuildZip(sub)
			entries = append(entries, vEntry{name: name, content: blob, declared: -1})
			if recursive {
				// the nested archive is replaced by its content
				st.files += inner.files
				st.total += inner.total
				if inner.maxFile > st.maxFile {
					st.maxFile = inner.maxFile
				}
				if inner.maxDepth > st.maxDepth {
					st.maxDepth = inner.maxDepth
				}
				st.lying = st.lying || inner.lying
				st.lyingShort = st.lyingShort || inner.lyingShort
				st.nestedAny = true
			} else {
				st.files++
				st.total += uint64(len(blob))
				if int64(len(blob)) > st.maxFile {
					st.maxFile = int64(len(blob))
				}
				if depthBase > st.maxDepth {
					st.maxDepth = depthBase
				}
			}
			continue
		}
		e := vEntry{name: name, content: vContent(size), declared: -1}
		if kind == vkDeflated {
			e.content = make([]byte, size) // zeros: compresses to a few bytes
			e.deflate = true
			if i == 0 && allowNested && verif.Bool(tag+"hugeLie") {
				// a zip64 header declaring 2^63 bytes: negative once taken as an int64, i.e. "fewer than stored"
				// (more data than one read of the copy loop delivers: 32 KiB)
				e.content = make([]byte, 40000)
				e.declaredHuge = true
				st.lying = true
				st.lyingShort = true
			}
		}
		if i == 0 && size > 0 && kind == vkFile && allowNested {
			switch verif.Choice(tag+"lie", 3) {
			case 1:
				e.declared = int64(size) + 1
				st.lying = true
			case 2:
				e.declared = int64(size) - 1
				st.lying = true
				st.lyingShort = true
			}
		}
		entries = append(entries, e)
		st.files++
		st.total += uint64(size)
		if int64(size) > st.maxFile {
			st.maxFile = int64(size)
		}
		if depthBase+depth > st.maxDepth {
			st.maxDepth = depthBase + depth
		}
	}
	return entries
}

// VerifC03_Limits: real archives, fully symbolic limits.
func VerifC03_Limits() {
	maxEntries := 2
	if verif.Tier() > 0 {
		maxEntries = 3
	}
	recursive := verif.Bool("recursive")
	st := &vArchiveStats{}
	entries := vGenEntries("", maxEntries, true, recursive, 0, st)
	archive := vBuildZip(entries)

	maxFileSize := verif.Int64("maxFileSize")
	maxTotal := verif.Uint64("maxTotalSize")
	maxCount := verif.Int64("maxFileCount")
	maxDepth := verif.Int64("maxDepth")
	// size and count limits are non-negative quantities; a negative depth limit means "disabled"
	verif.Assume(verif.And(maxFileSize >= 0, maxCount >= 0))
	limits := NewLimits(maxFileSize, maxTotal, maxCount, maxDepth, recursive)

	rec := newRecFs(afero.NewMemMapFs())
	fs := NewVirtualFileSystem(rec, InMemoryFS, IdentityPathConverterFunc)
	verif.Assume(fs.MkDir("/src") == nil && fs.WriteFile("/src/a.zip", archive, 0o644) == nil) // precondition of this harness ("setup"), not a clause of the property
	rec.reset()
	const dest = "/out"
	_, err := fs.UnzipWithContextAndLimits(context.Background(), "/src/a.zip", dest, limits)

	// what is on disk
	var files int64
	var total uint64
	var biggest, deepest int64
	for _, n := range vSnapshot(rec.inner, dest) {
		d := int64(-1)
		for i := len(dest); i < len(n.path); i++ {
			if n.path[i] == '/' {
				d++
			}
		}
		if d > deepest {
			deepest = d
		}
		if n.dir {
			continue
		}
		files++
		total += uint64(n.size)
		if n.size > biggest {
			biggest = n.size
		}
	}
	if err == nil {
		verif.Reach("success")
		verif.Assert("success_respects_file_count", files <= maxCount)
		verif.Assert("success_respects_total_size", total <= maxTotal)
		verif.Assert("success_respects_file_size", biggest <= maxFileSize)
		verif.Assert("success_respects_depth", verif.Or(maxDepth < 0, deepest <= maxDepth))
		verif.Assert("lying_header_is_an_error", !st.lying)
	} else {
		verif.Reach("refused")
	}
	// exceeding a limit => refused with the 'too large' kind (honest archives)
	if !st.lying {
		exceeds := verif.Or(verif.Or(st.files > maxCount, st.total > maxTotal), verif.Or(st.maxFile > maxFileSize, verif.And(maxDepth >= 0, st.maxDepth > maxDepth)))
		if exceeds {
			verif.Assert("exceeding_archive_is_refused", err != nil)
			verif.Assert("refusal_is_too_large_kind", commonerrors.Any(err, commonerrors.ErrTooLarge))
		}
	}
	// at no moment is a file longer than the per-file limit or its declared size
	for path, n := range rec.written {
		_ = path
		verif.Assert("never_writes_beyond_file_limit", n <= maxFileSize)
	}
	for _, e := range entries {
		if e.declared >= 0 {
			verif.Assert("never_writes_beyond_declared_size", rec.written[dest+"/"+e.name] <= e.declared)
		}
	}
	// (not a clause of this property -- handle hygiene is C06's -- so observed, not asserted)
	verif.Observe("handles_balanced", rec.opens == rec.closes)
}
