package filesystem

import (
	"context"
	"path/filepath"

	"github.com/spf13/afero"

	"github.com/ARM-software/golang-utils/utils/commonerrors"
	"github.com/ARM-software/golang-utils/utils/zz_verif/verif"
)

// vSplit splits on '/' keeping empty components.
func vSplit(s string) []string {
	var parts []string
	start := 0
	for i := 0; i <= len(s); i++ {
		if i == len(s) || s[i] == '/' {
			parts = append(parts, s[start:i])
			start = i + 1
		}
	}
	return parts
}

// vResolve is the naive lexical resolution of `name` appended to `dest`:
// a stack of components plus the number of leading ".." that could not be
// popped (relative paths) -- no shortcuts, no string searches.
func vResolve(dest, name string) (abs bool, ups int, stack []string) {
	abs = len(dest) > 0 && dest[0] == '/'
	push := func(c string) {
		if c == "" || c == "." {
			return
		}
		if c == ".." {
			if len(stack) > 0 {
				stack = stack[:len(stack)-1]
			} else if !abs {
				ups++
			}
			return
		}
		stack = append(stack, c)
	}
	for _, c := range vSplit(dest) {
		push(c)
	}
	for _, c := range vSplit(name) {
		push(c)
	}
	return
}

// vInside: is the resolved location equal to or below the destination?
func vInside(dest, name string) bool {
	dabs, dups, dstack := vResolve(dest, "")
	abs, ups, stack := vResolve(dest, name)
	if abs != dabs || ups != dups || len(stack) < len(dstack) {
		return false
	}
	for i := range dstack {
		if stack[i] != dstack[i] {
			return false
		}
	}
	return true
}

// vLegalName: non-empty, relative, every component a plain name (not empty, "." or "..").
func vLegalName(name string) bool {
	if name == "" {
		return false
	}
	for _, c := range vSplit(name) {
		if c == "" || c == "." || c == ".." {
			return false
		}
	}
	return true
}

func vHasDotDotSubstring(s string) bool {
	for i := 0; i+1 < len(s); i++ {
		if s[i] == '.' && s[i+1] == '.' {
			return true
		}
	}
	return false
}

var vDestinations = []string{"/d", "d", "/a/b", "a/b", "/", ".", "..", "../x"}

// VerifC02_Sanitise: the zip-slip guard on a fully symbolic entry name.
func VerifC02_Sanitise() {
	maxN := 4
	if verif.Tier() > 0 {
		maxN = 6
	}
	di := verif.Choice("dest", len(vDestinations))
	dest := vDestinations[di]
	n := verif.Len("n", 0, maxN)
	name := verif.String("name", n)
	fs := NewVirtualFileSystem(afero.NewMemMapFs(), InMemoryFS, IdentityPathConverterFunc)
	got, err := sanitiseZipExtractPath(fs, name, dest)
	if err == nil {
		verif.Observe("path", got)
		verif.Assert("accepted_entries_resolve_inside", vInside(dest, name))
		verif.Assert("returned_path_is_the_resolved_location", got == vRender(vResolve(dest, name)))
	} else {
		verif.Assert("rejections_are_malicious_kind", commonerrors.Any(err, commonerrors.ErrMalicious))
	}
	// (that legal names are accepted is not part of this property -- it is what the round trip of C07
	// demands -- so an over-cautious rejection is not an alarm here; acceptance is only recorded, so that
	// a sanitiser that refuses everything does not pass unnoticed: see the vacuity guard on "accepted")
	if err == nil && vLegalName(name) {
		verif.Reach("accepted")
	}
}

// vRender prints a resolution the way a cleaned path is written.
func vRender(abs bool, ups int, stack []string) string {
	r := ""
	if abs {
		r = "/"
	}
	first := true
	for i := 0; i < ups; i++ {
		if !first {
			r += "/"
		}
		r += ".."
		first = false
	}
	for _, c := range stack {
		if !first {
			r += "/"
		}
		r += c
		first = false
	}
	if r == "" {
		return "."
	}
	return r
}

// ---- call sites: the real unzip over real archives on the in-memory backend ----

func vNameFromAlphabet(tag string, maxLen int, alphabet string) string {
	n := verif.Len(tag+"len", 0, maxLen)
	b := make([]byte, n)
	for i := range b {
		b[i] = alphabet[verif.Choice(tag, len(alphabet))]
	}
	return string(b)
}

// VerifC02_UnzipStaysInside: every mutating backend operation of an
// extraction targets the destination or something below it, for every
// archive of 1..2 entries named over a small alphabet, also with a nested
// archive in recursive mode.
func VerifC02_UnzipStaysInside() {
	alphabet := "./a"
	maxLen := 3
	if verif.Tier() > 0 {
		alphabet = "./a\\"
		maxLen = 4
	}
	var entries []vEntry
	var victims []string
	nested := verif.Bool("nested")
	if nested {
		maxLen = 2 // the product with the nested archive's two names stays within the path budget
	}
	first := vNameFromAlphabet("n1", maxLen, alphabet)
	verif.Assume(first != "")
	entries = append(entries, vEntry{name: first, content: []byte("x"), declared: -1})
	if nested {
		inner := vNameFromAlphabet("n2", 2, alphabet)
		verif.Assume(inner != "")
		// the nested archive's own name matters too: its stem names the nested destination
		nestedName := vNameFromAlphabet("nz", 2+verif.Tier(), alphabet) + ".zip"
		verif.Assume(nestedName != first)
		// what the raw entry name spells when taken as a path of its own, from the root or from the working directory
		victims = []string{filepath.Join("/", nestedName), filepath.Clean(nestedName)}
		entries = append(entries, vEntry{name: nestedName, content: vBuildZip([]vEntry{{name: inner, content: []byte("y"), declared: -1}}), declared: -1})
	} else if verif.Bool("second") {
		second := vNameFromAlphabet("n2", 2, alphabet)
		verif.Assume(second != "" && second != first)
		entries = append(entries, vEntry{name: second, content: []byte("z"), declared: -1})
	}
	archive := vBuildZip(entries)
	rec := newRecFs(afero.NewMemMapFs())
	fs := NewVirtualFileSystem(rec, InMemoryFS, IdentityPathConverterFunc)
	verif.Assume(fs.MkDir("/src") == nil && fs.MkDir("/out") == nil && fs.WriteFile("/src/a.zip", archive, 0o644) == nil) // precondition of this harness ("setup"), not a clause of the property
	verif.Assume(fs.WriteFile("/out/keep", []byte("k"), 0o644) == nil) // precondition of this harness ("setup"), not a clause of the property
	// a sibling whose name has the destination's name as a prefix
	verif.Assume(fs.MkDir("/out/d2") == nil && fs.WriteFile("/out/d2/keep", []byte("k2"), 0o644) == nil) // precondition of this harness ("setup"), not a clause of the property
	const dest = "/out/d"
	// something to lose at the place the raw name of the nested archive points to (outside the destination)
	var planted []string
	for _, v := range victims {
		if !vPathInside(dest, v) && v != "/src/a.zip" && afero.WriteFile(rec.inner, v, []byte("v"), 0o644) == nil {
			planted = append(planted, v)
		}
	}
	before := vSnapshot(rec.inner, "/out")
	rec.reset()
	limits := NoLimits()
	if nested {
		limits = DefaultLimits()
	}
	given := dest
	if len(entries) == 1 && verif.Bool("trailingSeparator") {
		given = dest + "/"
	}
	_, err := fs.UnzipWithContextAndLimits(context.Background(), "/src/a.zip", given, limits)
	for _, op := range rec.mutations() {
		verif.Assert("mutations_stay_inside_destination", vPathInside(dest, filepath.Clean(op.path)))
		if op.path2 != "" {
			verif.Assert("mutations_stay_inside_destination", vPathInside(dest, filepath.Clean(op.path2)))
		}
	}
	// nothing outside the destination changed
	after := vSnapshot(rec.inner, "/out")
	var outside []vNode
	for _, n := range after {
		if !vPathInside(dest, n.path) {
			outside = append(outside, n)
		}
	}
	verif.Assert("outside_untouched", vSameTree(before, outside))
	for _, v := range planted {
		content, rerr := afero.ReadFile(rec.inner, v)
		verif.Assert("outside_untouched", rerr == nil && string(content) == "v")
	}
	verif.Observe("err", err != nil)
	if err != nil {
		verif.Reach("rejected")
	}
	// an entry that resolves outside makes the call fail with the malicious kind
	escapes := !vInside(dest, first)
	for _, e := range entries[1:] {
		if !vInside(dest, e.name) {
			escapes = true
		}
	}
	if escapes {
		verif.Assert("escaping_entry_is_refused_as_malicious", err != nil && commonerrors.Any(err, commonerrors.ErrMalicious))
	}
	// (not a clause of this property -- handle hygiene is C06's -- so observed, not asserted)
	verif.Observe("handles_balanced", rec.opens == rec.closes)
}

// VerifC02_UnzipNonUTF8Names: entry names that are not valid UTF-8 go through
// the charset detection / conversion step after the sanitiser has accepted
// them; whatever that step makes of the name, nothing outside the destination
// may be touched. One entry named over {'.', '/', 'x', 0xFE}.
func VerifC02_UnzipNonUTF8Names() {
	maxLen := 5
	if verif.Tier() > 0 {
		maxLen = 6
	}
	// tokens: besides an invalid UTF-8 byte, the escape sequence by which ISO-2022-JP returns to ASCII
	// (a charset conversion makes it vanish, which can turn ".<ESC>(B." into "..")
	tokens := []string{".", "/", "x", "\xfe", "\x1b(B"}
	n := verif.Len("nlen", 1, maxLen)
	name := ""
	for i := 0; i < n; i++ {
		name += tokens[verif.Choice("n", len(tokens))]
	}
	hasHigh := false
	for i := 0; i < len(name); i++ {
		if name[i] == 0xfe {
			hasHigh = true
		}
	}
	verif.Assume(hasHigh) // the valid names are the other harness's subject
	archive := vBuildZip([]vEntry{{name: name, content: []byte("x"), declared: -1}})
	rec := newRecFs(afero.NewMemMapFs())
	fs := NewVirtualFileSystem(rec, InMemoryFS, IdentityPathConverterFunc)
	// what the charset detection makes of a name depends on the whole path: short, letter-poor ones included
	dest := []string{"/out/d", "/out", "/d"}[verif.Choice("dest", 3)]
	verif.Assume(fs.MkDir("/src") == nil && fs.MkDir(dest) == nil && fs.WriteFile("/src/a.zip", archive, 0o644) == nil) // precondition of this harness ("setup"), not a clause of the property
	verif.Assume(fs.WriteFile("/keep", []byte("k"), 0o644) == nil) // precondition of this harness ("setup"), not a clause of the property
	before := vSnapshot(rec.inner, "/")
	rec.reset()
	_, err := fs.UnzipWithContextAndLimits(context.Background(), "/src/a.zip", dest, NoLimits())
	for _, op := range rec.mutations() {
		verif.Assert("mutations_stay_inside_destination", vPathInside(dest, filepath.Clean(op.path)))
	}
	var outsideBefore, outsideAfter []vNode
	for _, n := range before {
		if !vPathInside(dest, n.path) {
			outsideBefore = append(outsideBefore, n)
		}
	}
	for _, n := range vSnapshot(rec.inner, "/") {
		if !vPathInside(dest, n.path) {
			outsideAfter = append(outsideAfter, n)
		}
	}
	verif.Assert("outside_untouched", vSameTree(outsideBefore, outsideAfter))
	verif.Observe("err", err != nil)
	verif.Observe("handles_balanced", rec.opens == rec.closes)
}

// VerifC02_SiblingEscape: entries that leave the destination with '..' and
// enter a sibling whose name is one or two arbitrary bytes -- in particular a
// case variant or an extension of the destination's own name -- are refused
// for every such name.
func VerifC02_SiblingEscape() {
	fs := NewVirtualFileSystem(afero.NewMemMapFs(), InMemoryFS, IdentityPathConverterFunc)
	dest := []string{"/o/d", "/o/D", "/o/dE", "/O/d"}[verif.Choice("dest", 4)]
	n := verif.Len("siblen", 1, 2)
	sib := verif.String("sibling", n)
	ups := verif.Len("ups", 1, 2)
	name := ""
	for i := 0; i < ups; i++ {
		name += "../"
	}
	if ups == 2 {
		name += []string{"o", "O"}[verif.Choice("parent", 2)] + "/"
	}
	name += sib + "/x"
	got, err := sanitiseZipExtractPath(fs, name, dest)
	if err == nil {
		verif.Assert("accepted_entries_resolve_inside", vInside(dest, name))
		verif.Assert("returned_path_is_the_resolved_location", got == vRender(vResolve(dest, name)))
	} else {
		verif.Reach("rejected")
	}
}
