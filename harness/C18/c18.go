package subprocess

import (
	"github.com/ARM-software/golang-utils/utils/zz_verif/verif"
)

// recLoggers is a logs.Loggers double that records every message.
type recLoggers struct {
	out, err []string
	order    []string // "o"/"e" per message, to check stream separation
}

func (r *recLoggers) Close() error                       { return nil }
func (r *recLoggers) Check() error                       { return nil }
func (r *recLoggers) SetLogSource(source string) error    { return nil }
func (r *recLoggers) SetLoggerSource(source string) error { return nil }
func (r *recLoggers) Log(output ...interface{}) {
	for _, o := range output {
		if s, ok := o.(string); ok {
			r.out = append(r.out, s)
		} else {
			r.out = append(r.out, "<non-string>")
		}
	}
}
func (r *recLoggers) LogError(err ...interface{}) {
	for _, o := range err {
		if s, ok := o.(string); ok {
			r.err = append(r.err, s)
		} else {
			r.err = append(r.err, "<non-string>")
		}
	}
}

// nonEmptyLines is the reference: the maximal newline-free runs of p.
func nonEmptyLines(p []byte) []string {
	var lines []string
	start := 0
	for i := 0; i <= len(p); i++ {
		if i == len(p) || p[i] == '\n' {
			if i > start {
				lines = append(lines, string(p[start:i]))
			}
			start = i + 1
		}
	}
	return lines
}

func withoutNewlines(p []byte) string {
	var b []byte
	for _, c := range p {
		if c != '\n' {
			b = append(b, c)
		}
	}
	return string(b)
}

func joinAll(ss []string) string {
	r := ""
	for _, s := range ss {
		r += s
	}
	return r
}

func vNonEmptyMessages(ms []string) []string {
	var out []string
	for _, m := range ms {
		if len(m) > 0 {
			out = append(out, m)
		}
	}
	return out
}

func sameLines(a, b []string) bool {
	if len(a) != len(b) {
		return false
	}
	ok := true
	for i := range a {
		ok = verif.And(ok, a[i] == b[i])
	}
	return ok
}

// VerifC18_Chunks: a stream of n symbolic bytes is written through the real
// logStreamer in two chunks split at a symbolic offset.
func VerifC18_Chunks() {
	maxN := 5
	if verif.Tier() > 0 {
		maxN = 7
	}
	n := verif.Len("n", 0, maxN)
	p := verif.Bytes("p", n)
	k := verif.Len("k", 0, n)
	isErr := verif.Bool("stderr")
	rec := &recLoggers{}
	w := &logStreamer{IsStdErr: isErr, Loggers: rec}
	n1, e1 := w.Write(p[:k])
	n2, e2 := w.Write(p[k:])
	verif.Assert("returns", e1 == nil && e2 == nil && n1 == k && n2 == n-k)
	got, other := rec.out, rec.err
	if isErr {
		got, other = rec.err, rec.out
	}
	verif.Assert("stream_separation", len(other) == 0)
	verif.Observe("messages", got)
	verif.Assert("content", joinAll(got) == withoutNewlines(p))
	// (an extra empty message would not contradict the property: empty ones are left out of the comparison)
	got = vNonEmptyMessages(got)
	insideLine := false
	if k > 0 && k < n {
		insideLine = verif.And(p[k-1] != '\n', p[k] != '\n')
	}
	verif.AssertKnown("lines", sameLines(got, nonEmptyLines(p)), "KF-C18-line-split-across-writes", insideLine)
}

// VerifC18_ThreeChunks: same with two boundaries (thorough tier).
func VerifC18_ThreeChunks() {
	maxN := 4
	if verif.Tier() > 0 {
		maxN = 6
	}
	n := verif.Len("n", 0, maxN)
	p := verif.Bytes("p", n)
	k1 := verif.Len("k1", 0, n)
	k2 := verif.Len("k2", k1, n)
	rec := &recLoggers{}
	w := &logStreamer{Loggers: rec}
	w.Write(p[:k1])
	w.Write(p[k1:k2])
	w.Write(p[k2:])
	verif.Assert("content", joinAll(rec.out) == withoutNewlines(p))
	inside := false
	if k1 > 0 && k1 < n {
		inside = verif.And(p[k1-1] != '\n', p[k1] != '\n')
	}
	if k2 > 0 && k2 < n && k2 != k1 {
		inside = verif.Or(inside, verif.And(p[k2-1] != '\n', p[k2] != '\n'))
	}
	verif.AssertKnown("lines", sameLines(vNonEmptyMessages(rec.out), nonEmptyLines(p)), "KF-C18-line-split-across-writes", inside)
}
