package subprocess

import (
	"context"
	"errors"
	"os/exec"
	"strconv"
	"strings"
	"sync"
	"time"

	"github.com/ARM-software/golang-utils/utils/commonerrors"
	"github.com/ARM-software/golang-utils/utils/zz_verif/verif"
)

// The child is described by a script. Natively the script is a real `sh -c`
// child; under the engine (*os/exec.Cmd).Run is replaced by
// VerifOverrideCmdRun, which plays the same script into the command's real
// Stdout/Stderr writers (the library's log streamers) and returns the
// corresponding result. Everything on the library's side -- Execute, the
// monitoring goroutine, messaging, the streamers, the error conversion -- is
// the real code in both worlds.
type vChildWrite struct {
	toErr bool
	text  string
	env   string // when set: the child prints the value of this environment variable (and a newline) instead of text
}

var vChild struct {
	writes []vChildWrite
	exit   int // 0..255, or -1 for death by signal
	ctx    context.Context
	// cancelWhileRunning: the child writes its output and then hangs; the caller's
	// context is cancelled while it does, which kills it.
	cancelWhileRunning bool
	cancel             context.CancelFunc
}

// VerifOverrideCmdRun replaces (*os/exec.Cmd).Run under the engine.
func VerifOverrideCmdRun(c *exec.Cmd) error {
	if vChild.ctx != nil && vChild.ctx.Err() != nil {
		return vChild.ctx.Err() // what Start does with a context that is already done
	}
	for _, w := range vChild.writes {
		dst := c.Stdout
		if w.toErr {
			dst = c.Stderr
		}
		text := w.text
		if w.env != "" {
			// what a child sees: the last assignment of the variable in its environment
			text = "\n"
			for _, kv := range c.Env {
				if len(kv) > len(w.env) && kv[:len(w.env)+1] == w.env+"=" {
					text = kv[len(w.env)+1:] + "\n"
				}
			}
		}
		if dst != nil {
			_, _ = dst.Write([]byte(text))
		}
	}
	if vChild.cancelWhileRunning {
		// os/exec kills the child when the context ends and reports how it died
		vChild.cancel()
		return errors.New("signal: killed")
	}
	switch {
	case vChild.exit == 0:
		return nil
	case vChild.exit < 0:
		return errors.New("signal: killed")
	}
	return &exec.ExitError{}
}

func vShellScript() string {
	var sb strings.Builder
	for _, w := range vChild.writes {
		if w.env != "" {
			sb.WriteString("printf '%s\\n' \"$" + w.env + "\"")
		} else {
			sb.WriteString("printf '")
			sb.WriteString(strings.ReplaceAll(w.text, "\n", "\\n"))
			sb.WriteString("'")
		}
		if w.toErr {
			sb.WriteString(" >&2")
		}
		sb.WriteString("; ")
	}
	if vChild.cancelWhileRunning {
		sb.WriteString("exec sleep 30")
	} else if vChild.exit < 0 {
		sb.WriteString("kill -9 $$")
	} else {
		sb.WriteString("exit " + strconv.Itoa(vChild.exit))
	}
	return sb.String()
}

type vLogEntry struct {
	toErr bool
	text  string
	nargs int
}

// seqLoggers records every logger call in one global sequence.
type seqLoggers struct {
	mu  sync.Mutex
	seq []vLogEntry
}

func (r *seqLoggers) Close() error                        { return nil }
func (r *seqLoggers) Check() error                        { return nil }
func (r *seqLoggers) SetLogSource(source string) error    { return nil }
func (r *seqLoggers) SetLoggerSource(source string) error { return nil }
func (r *seqLoggers) add(toErr bool, args []interface{}) {
	r.mu.Lock()
	defer r.mu.Unlock()
	e := vLogEntry{toErr: toErr, nargs: len(args), text: "<non-string>"}
	if len(args) > 0 {
		if s, ok := args[0].(string); ok {
			e.text = s
		}
	}
	r.seq = append(r.seq, e)
}
func (r *seqLoggers) Log(output ...interface{})   { r.add(false, output) }
func (r *seqLoggers) LogError(err ...interface{}) { r.add(true, err) }

const vEnvName, vEnvValue = "VERIF_EXTRA", "from-the-caller"

const (
	vMsgStart   = "<<start>>"
	vMsgSuccess = "<<success>>"
	vMsgFailure = "<<failure>>"
)

// vGenChild picks the child's behaviour: up to maxWrites writes, each to
// either stream, each one of a few line shapes; and an exit status.
func vGenChild(maxWrites int) {
	vChild.writes = nil
	n := verif.Len("writes", 0, maxWrites)
	lastOut, lastErr := -1, -1
	for i := 0; i < n; i++ {
		w := vChildWrite{toErr: verif.Bool("toErr")}
		tag := "L" + strconv.Itoa(i)
		switch verif.Choice("shape", 4) {
		case 0:
			w.text = tag + "\n"
		case 1:
			w.text = tag + "a\n" + tag + "b\n" // two lines in one write
		case 2:
			w.text = "\n" // an empty line
		case 3:
			w.text = tag // no newline: only meaningful as the last write of its stream
		}
		vChild.writes = append(vChild.writes, w)
		if w.toErr {
			lastErr = i
		} else {
			lastOut = i
		}
	}
	// an unterminated fragment followed by more output of the same stream is one line for the
	// child but can reach the streamer in two writes: that is KF-C18-line-split-across-writes,
	// covered by VerifC18_Chunks; here fragments only end a stream
	for i, w := range vChild.writes {
		if !strings.HasSuffix(w.text, "\n") {
			last := lastOut
			if w.toErr {
				last = lastErr
			}
			verif.Assume(i == last)
		}
	}
	switch verif.Choice("status", 4) {
	case 0:
		vChild.exit = 0
	case 1:
		vChild.exit = 1
	case 2:
		vChild.exit = []int{2, 126, 127, 255}[verif.Choice("code", 4)]
	case 3:
		vChild.exit = -1
	}
}

func vExpectedLines(toErr bool) []string {
	var stream []byte
	for _, w := range vChild.writes {
		if w.toErr == toErr {
			if w.env != "" {
				stream = append(stream, vEnvValue+"\n"...)
			} else {
				stream = append(stream, w.text...)
			}
		}
	}
	return nonEmptyLines(stream)
}

// VerifC18_Execute: exit status, message order and per-stream content of a
// whole Execute.
func VerifC18_Execute() {
	maxWrites := 2
	if verif.Tier() > 0 {
		maxWrites = 3
	}
	vGenChild(maxWrites)
	cancelledBefore := false
	ctx, cancel := context.WithCancel(context.Background())
	defer cancel()
	if verif.Bool("cancelledBefore") {
		cancelledBefore = true
		cancel()
	}
	vChild.ctx = ctx
	rec := &seqLoggers{}
	var p *Subprocess
	var err error
	if verif.Bool("withExtraEnvironment") {
		// the child reports a variable the caller added to its environment
		vChild.writes = append([]vChildWrite{{env: vEnvName}}, vChild.writes...)
		p, err = NewWithEnvironment(ctx, rec, []string{vEnvName + "=" + vEnvValue}, vMsgStart, vMsgSuccess, vMsgFailure, "/bin/sh", "-c", vShellScript())
	} else {
		p, err = New(ctx, rec, vMsgStart, vMsgSuccess, vMsgFailure, "/bin/sh", "-c", vShellScript())
	}
	verif.Assume(err == nil && p != nil) // precondition of this harness ("constructor"), not a clause of the property
	err = p.Execute()

	rec.mu.Lock()
	seq := append([]vLogEntry(nil), rec.seq...)
	rec.mu.Unlock()

	if cancelledBefore {
		verif.Assert("cancelled_is_context_kind", commonerrors.Any(err, commonerrors.ErrCancelled, commonerrors.ErrTimeout))
	} else {
		verif.Assert("nil_exactly_for_status_zero", (err == nil) == (vChild.exit == 0))
	}
	verif.Assert("not_running_afterwards", !p.IsOn())

	// the start message comes first
	verif.Assert("start_message_first", len(seq) >= 2 && !seq[0].toErr && seq[0].text == vMsgStart)
	// exactly one end message, of the right sort, and it is the last thing logged
	ends := 0
	for _, e := range seq {
		if e.text == vMsgSuccess || e.text == vMsgFailure {
			ends++
		}
	}
	verif.Assert("exactly_one_end_message", ends == 1)
	last := seq[len(seq)-1]
	if err == nil {
		verif.Assert("success_message_last", !last.toErr && last.text == vMsgSuccess)
	} else {
		verif.Assert("failure_message_last", last.toErr && last.text == vMsgFailure && last.nargs == 2)
	}
	// in between: the child's lines, per stream, complete and in order
	var gotOut, gotErr []string
	for _, e := range seq[1 : len(seq)-1] {
		if e.toErr {
			gotErr = append(gotErr, e.text)
		} else {
			gotOut = append(gotOut, e.text)
		}
	}
	if cancelledBefore {
		verif.Assert("no_child_output_when_never_started", len(gotOut) == 0 && len(gotErr) == 0)
		return
	}
	verif.Observe("stdout", gotOut)
	verif.Observe("stderr", gotErr)
	verif.Assert("stdout_lines", sameLines(gotOut, vExpectedLines(false)))
	verif.Assert("stderr_lines", sameLines(gotErr, vExpectedLines(true)))
}

// VerifC18_Output: Output() returns everything the child wrote.
func VerifC18_Output() {
	vGenChild(2)
	ctx := context.Background()
	vChild.ctx = ctx
	rec := &seqLoggers{}
	out, err := Output(ctx, rec, "/bin/sh", "-c", vShellScript())
	verif.Assert("nil_exactly_for_status_zero", (err == nil) == (vChild.exit == 0))
	// every line of either stream is in the returned text, in order within its stream
	for _, toErr := range []bool{false, true} {
		pos := 0
		for _, l := range vExpectedLines(toErr) {
			k := strings.Index(out[pos:], l+"\n")
			verif.Assert("output_has_every_line_in_order", k >= 0)
			if k < 0 {
				break
			}
			pos += k + len(l) + 1
		}
	}
	want := 0
	for _, toErr := range []bool{false, true} {
		for _, l := range vExpectedLines(toErr) {
			want += len(l) + 1
		}
	}
	verif.Assert("output_has_nothing_else", len(out) == want)
	// and the caller's loggers received the same lines
	var gotOut, gotErr []string
	for _, e := range rec.seq {
		if e.toErr {
			gotErr = append(gotErr, e.text)
		} else {
			gotOut = append(gotOut, e.text)
		}
	}
	verif.Assert("stdout_lines", sameLines(gotOut, vExpectedLines(false)))
	verif.Assert("stderr_lines", sameLines(gotErr, vExpectedLines(true)))
}

// VerifC18_CancelledWhileRunning: the context is cancelled while the child is
// still running (after it has written its output): Execute returns an error,
// the child's lines were all logged, and exactly one end message -- the
// failure message -- is logged, also once the monitoring goroutine has done
// its part.
func VerifC18_CancelledWhileRunning() {
	// the monitoring goroutine reacts to the cancellation concurrently with Execute's own
	// clean-up: every interleaving with one preemption is explored
	verif.ExploreSchedules(1)
	// (a fixed child: what it writes is the other harnesses' subject)
	vChild.writes = []vChildWrite{{text: "L0\n"}, {toErr: true, text: "L1\n"}}
	vChild.exit = 0
	vChild.cancelWhileRunning = true
	ctx, cancel := context.WithCancel(context.Background())
	defer cancel()
	vChild.ctx, vChild.cancel = ctx, cancel
	rec := &seqLoggers{}
	p, err := New(ctx, rec, vMsgStart, vMsgSuccess, vMsgFailure, "/bin/sh", "-c", vShellScript())
	verif.Assume(err == nil && p != nil) // precondition of this harness ("constructor"), not a clause of the property
	if !verif.Symbolic() {
		// natively the cancellation comes from outside, once the child has had time to write
		go func() {
			time.Sleep(300 * time.Millisecond)
			cancel()
		}()
	}
	err = p.Execute()
	verif.Advance(200 * time.Millisecond) // let the monitoring goroutine finish what the cancellation started
	verif.Assert("cancelled_run_reports_an_error", err != nil)
	verif.Assert("not_running_afterwards", !p.IsOn())

	rec.mu.Lock()
	seq := append([]vLogEntry(nil), rec.seq...)
	rec.mu.Unlock()
	verif.Assert("start_message_first", len(seq) >= 2 && !seq[0].toErr && seq[0].text == vMsgStart)
	successes, failures := 0, 0
	var gotOut, gotErr []string
	for _, e := range seq[1:] {
		switch {
		case e.text == vMsgSuccess:
			successes++
		case e.text == vMsgFailure:
			failures++
		case len(e.text) >= 8 && e.text[:8] == "Stopping":
			// the monitoring goroutine's own announcement, when it gets that far
		case e.toErr:
			gotErr = append(gotErr, e.text)
		default:
			gotOut = append(gotOut, e.text)
		}
	}
	verif.Assert("exactly_one_end_message", successes+failures == 1)
	verif.Assert("it_is_the_failure_message", failures == 1)
	verif.Assert("stdout_lines", sameLines(gotOut, vExpectedLines(false)))
	verif.Assert("stderr_lines", sameLines(gotErr, vExpectedLines(true)))
}
