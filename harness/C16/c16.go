package sharedcache

import (
	"context"
	"errors"
	"os"
	"syscall"
	"time"

	"github.com/spf13/afero"

	"github.com/ARM-software/golang-utils/utils/filesystem"
	"github.com/ARM-software/golang-utils/utils/hashing"
	"github.com/ARM-software/golang-utils/utils/zz_verif/verif"
)

// upper bound on the backend operations of one Store over these trees (checked by VerifC16_Probe)
const vMaxStoreOps = 260

var vUUIDCounter int

// VerifOverrideUUID replaces idgen.GenerateUUID4 under the engine (randomness
// is environment): distinct, well-formed identifiers from a counter.
func VerifOverrideUUID() (string, error) {
	vUUIDCounter++
	return "00000000-0000-4000-8000-00000000000" + string(rune('0'+vUUIDCounter%10)), nil
}

// VerifOverrideValidate replaces (*Configuration).Validate under the engine:
// the ozzo-validation library works by deep reflection (not encodable); the
// rule it implements here is "RemoteStoragePath is required".
func VerifOverrideValidate(cfg *Configuration) error {
	if cfg.RemoteStoragePath == "" {
		return errors.New("RemoteStoragePath: cannot be blank")
	}
	return nil
}

type vClient struct {
	faultOp string
	rec   *vRecFs
	fs    filesystem.FS
	cache ISharedCacheRepository
}

func vNewClient(kind CacheType, inner afero.Fs) *vClient {
	rec := newRecFs(inner)
	fs := filesystem.NewVirtualFileSystem(rec, filesystem.InMemoryFS, filesystem.IdentityPathConverterFunc)
	cache, err := NewCache(kind, fs, &Configuration{RemoteStoragePath: "/remote", Timeout: 200 * time.Millisecond})
	verif.Assume(err == nil && cache != nil) // precondition of this harness ("constructor"), not a clause of the property
	return &vClient{rec: rec, fs: fs, cache: cache}
}

// versions: small trees that differ in every file, so that a mixture is visible
func vWriteVersion(fs afero.Fs, dir string, v int) {
	_ = fs.MkdirAll(dir+"/sub", 0o755)
	tag := string(rune('0' + v))
	_ = afero.WriteFile(fs, dir+"/a", []byte("a"+tag), 0o644)
	_ = afero.WriteFile(fs, dir+"/sub/b", []byte("b"+tag+tag), 0o644)
	if v%2 == 0 {
		_ = afero.WriteFile(fs, dir+"/c", []byte("c"+tag), 0o644)
	}
}

// vRel is the content of a tree with paths relative to its root.
func vRel(fs afero.Fs, root string) []vNode {
	nodes := vSnapshot(fs, root)
	for i := range nodes {
		nodes[i].path = nodes[i].path[len(root):]
	}
	return nodes
}

// vWhichVersion returns the version (1..n) the tree at dir is an exact copy of, or 0.
func vWhichVersion(fs afero.Fs, dir string, n int) int {
	got := vRel(fs, dir)
	for v := 1; v <= n; v++ {
		if vSameTree(got, vRel(fs, "/src"+string(rune('0'+v)))) {
			return v
		}
	}
	return 0
}

const (
	vFaultOnce    = 0 // the k-th backend operation fails, everything else works
	vFaultStop    = 1 // the client stops at its k-th operation: nothing it does from then on has any effect
	vFaultPartial = 2 // as vFaultStop, and if the k-th operation is a write, half of its data is stored
)

// inject arms the client's backend: see the fault kinds above. It returns a
// function telling whether the fault point was reached.
func (c *vClient) inject(k, kind int) func() bool {
	n, stopped, reached := 0, false, false
	c.rec.before = func(op *vOp) error {
		vWatchBackend(c.rec.inner)
		if stopped {
			return pathErr(op.name, op.path)
		}
		if vIsHeartbeat(op) {
			return nil
		}
		n++
		if n != k {
			return nil
		}
		reached = true
		c.faultOp = op.name // (the path holds random temporary names: not comparable between runs)
		if len(op.path) >= 8 && op.path[:8] == "/remote/" {
			c.faultOp += " remote"
		}
		if kind != vFaultOnce {
			stopped = true
		}
		if kind == vFaultPartial && op.name == "Write" {
			return errVerifPartial
		}
		return pathErr(op.name, op.path)
	}
	return func() bool { return reached }
}

// operations on a lock's heartbeat file come (mostly) from the heartbeat
// goroutine, at instants that depend on real time when replayed natively:
// they are not counted as fault / preemption positions (faults on them are
// the subject of C17).
func vIsHeartbeat(op *vOp) bool {
	return len(op.path) > 5 && op.path[len(op.path)-5:] == ".lock"
}

func pathErr(op, path string) error {
	return &os.PathError{Op: op, Path: path, Err: syscall.EIO}
}

func vSetup(kind CacheType, versions int) afero.Fs {
	inner := afero.NewMemMapFs()
	_ = inner.MkdirAll("/remote", 0o755)
	for v := 1; v <= versions; v++ {
		vWriteVersion(inner, "/src"+string(rune('0'+v)), v)
	}
	return inner
}

const vKey = "k"

// vEntryDirIsAFile: the in-memory backend lets a Create replace a directory
// by a file (an operating system answers EISDIR); once that has happened to
// the cache entry's directory the backend is inconsistent.
var vEntryDirIsAFile bool

func vWatchBackend(inner afero.Fs) {
	if fi, err := inner.Stat("/remote/" + vKey); err == nil && !fi.IsDir() {
		vEntryDirIsAFile = true
	}
}

// vHashFileIsStale: the mutable cache's package has a hash file next to it
// that is not the hash of the package.
func vHashFileIsStale(c *vClient) bool {
	pkg := "/remote/" + vKey + "/" + defaultCachedPackage
	recorded, err := c.fs.ReadFile(pkg + hashFileDescriptor)
	if err != nil {
		return false
	}
	actual, err := c.fs.FileHash(hashing.HashXXHash, pkg)
	return err == nil && string(recorded) != actual
}

// VerifC16_InterruptedStore: a second Store is hit by a fault at its k-th
// backend operation (single failure, process stop, stop in the middle of a
// write); whatever it reports, a later Fetch by another client installs
// exactly one complete version or fails.
func VerifC16_InterruptedStore() {
	kind := CacheTypes[verif.Choice("kind", 2)]
	inner := vSetup(kind, 2)
	ctx := context.Background()
	a := vNewClient(kind, inner)
	withFirst := true
	if verif.Tier() > 0 {
		withFirst = verif.Bool("firstVersionStored")
	}
	if withFirst {
		verif.Assume(a.cache.Store(ctx, vKey, "/src1") == nil) // precondition of this harness ("first_store"), not a clause of the property
		verif.Advance(10 * time.Millisecond)
	}
	b := vNewClient(kind, inner)
	bctx, bcancel := context.WithCancel(ctx)
	k := verif.Len("k", 1, vMaxStoreOps)
	fault := verif.Choice("fault", 3)
	if verif.Tier() == 0 {
		verif.Assume(fault != vFaultStop) // quick tier: the stop in the middle of a write subsumes the plain stop except on writes
	}
	reached := b.inject(k, fault)
	verif.KnownDeadlockIf("KF-C16-memory-backend-lets-a-copy-replace-the-entry-directory", &vEntryDirIsAFile)
	err2 := b.cache.Store(bctx, vKey, "/src2")
	if fault != vFaultOnce {
		// a stopped process reports nothing: only its effects on the storage count
		err2 = errors.New("verif: the storing process stopped")
	}
	// (no Observe of what the k-th operation was or what came of it: the engine's and a native run's k-th
	// operations need not coincide -- the number of Read calls of io.ReadAll-style loops follows the
	// allocator's growth policy -- so native replays check the assertions at *their* k-th operation)
	verif.Assume(reached()) // otherwise this is the fault-free run, covered by k = last operation + 1
	bcancel()                // the interrupted client is gone: its heartbeat stops with it
	verif.Advance(300 * time.Millisecond)

	c := vNewClient(kind, inner)
	// stale-lock cleaning for the lock-based cache; for the immutable one cleaning (of old versions) is optional
	if kind == CacheMutable || verif.Bool("cleanBeforeFetch") {
		_ = c.cache.CleanEntry(ctx, vKey)
	}
	staleHash := vHashFileIsStale(c)
	err3 := c.cache.Fetch(ctx, vKey, "/dest")
	if err3 == nil {
		v := vWhichVersion(inner, "/dest", 2)
		verif.Assert("fetch_installs_one_complete_version", v == 2 || (v == 1 && withFirst))
		if err2 == nil {
			verif.Assert("a_successful_store_is_what_fetch_returns", v == 2)
		}
	} else if err2 == nil {
		verif.Observe("stale_hash_file", staleHash)
		verif.Assert("fetch_after_a_successful_store_succeeds", false)
	}
	// and the sources were never touched
	verif.Assert("sources_untouched", vWhichVersion(inner, "/src2", 2) == 2)
}

// VerifC16_ConcurrentClients: another client's complete Fetch / Store /
// CleanEntry runs inside a Store, before its k-th backend operation, for
// every k (every interleaving with one preemption at backend-operation
// granularity); every successful Fetch installs one complete version.
func VerifC16_ConcurrentClients() {
	kind := CacheTypes[verif.Choice("kind", 2)]
	inner := vSetup(kind, 3)
	ctx := context.Background()
	a := vNewClient(kind, inner)
	verif.Assume(a.cache.Store(ctx, vKey, "/src1") == nil) // precondition of this harness ("first_store"), not a clause of the property
	verif.Advance(10 * time.Millisecond)

	b := vNewClient(kind, inner)
	k := verif.Len("k", 1, vMaxStoreOps)
	what := verif.Choice("other", 3) // 0 Fetch, 1 Store of a third version, 2 CleanEntry
	if verif.Tier() == 0 {
		verif.Assume(what != 2)
	}
	n, ran := 0, false
	var errB error
	a2 := vNewClient(kind, inner)
	a2.rec.before = func(op *vOp) error {
		if vIsHeartbeat(op) {
			return nil
		}
		n++
		if n == k && !ran {
			ran = true
			switch what {
			case 0:
				errB = b.cache.Fetch(ctx, vKey, "/destB")
				if errB == nil {
					v := vWhichVersion(inner, "/destB", 3)
					verif.Assert("concurrent_fetch_installs_one_complete_version", v == 1 || v == 2)
				}
			case 1:
				errB = b.cache.Store(ctx, vKey, "/src3")
			case 2:
				errB = b.cache.CleanEntry(ctx, vKey)
			}
		}
		return nil
	}
	errA := a2.cache.Store(ctx, vKey, "/src2")
	verif.Assume(ran)
	verif.Advance(10 * time.Millisecond)

	c := vNewClient(kind, inner)
	err3 := c.cache.Fetch(ctx, vKey, "/dest")
	if err3 == nil {
		v := vWhichVersion(inner, "/dest", 3)
		_ = v // (not observed: see VerifC16_InterruptedStore)
		verif.Assert("fetch_installs_one_complete_version", v == 1 || v == 2 || (v == 3 && what == 1))
		if errA == nil && what != 1 {
			verif.Assert("a_successful_store_is_what_fetch_returns", v == 2)
		}
		if errA == nil && what == 1 && errB == nil {
			verif.Assert("a_successful_store_is_what_fetch_returns", v == 2 || v == 3)
		}
	} else {
		verif.Assert("fetch_after_successful_stores_succeeds", errA != nil)
	}
}

// VerifC16_FetchVersusOthers: the reverse nesting -- another client's complete
// Store (and/or CleanEntry) runs inside a Fetch, before its k-th backend
// operation: a Fetch that reports success has installed exactly one complete
// version.
func VerifC16_FetchVersusOthers() {
	kind := CacheTypes[verif.Choice("kind", 2)]
	inner := vSetup(kind, 2)
	ctx := context.Background()
	a := vNewClient(kind, inner)
	verif.Assume(a.cache.Store(ctx, vKey, "/src1") == nil) // precondition of this harness ("first_store"), not a clause of the property
	verif.Advance(10 * time.Millisecond)

	k := verif.Len("k", 1, vMaxStoreOps)
	what := verif.Choice("other", 3) // 0 Store of a second version, 1 Store then CleanEntry, 2 CleanEntry alone
	if verif.Tier() == 0 {
		verif.Assume(what == 1)
	}
	n, ran := 0, false
	b := vNewClient(kind, inner)
	b.rec.before = func(op *vOp) error {
		if vIsHeartbeat(op) {
			return nil
		}
		n++
		if n == k && !ran {
			ran = true
			verif.Advance(5 * time.Millisecond)
			if what != 2 {
				_ = a.cache.Store(ctx, vKey, "/src2")
			}
			if what != 0 {
				_ = a.cache.CleanEntry(ctx, vKey)
			}
		}
		return nil
	}
	errB := b.cache.Fetch(ctx, vKey, "/destB")
	verif.Assume(ran)
	if errB == nil {
		v := vWhichVersion(inner, "/destB", 2)
		verif.Assert("fetch_installs_one_complete_version", v == 1 || (v == 2 && what != 2))
	}
}

// VerifC16_CleanVersusStore: another client's complete Store runs inside a
// CleanEntry, before its k-th backend operation: the version that Store
// reported as stored is what a later Fetch returns (cleaning never removes a
// package that arrived while it was looking).
func VerifC16_CleanVersusStore() {
	kind := CacheTypes[verif.Choice("kind", 2)]
	inner := vSetup(kind, 3)
	ctx := context.Background()
	a := vNewClient(kind, inner)
	verif.Assume(a.cache.Store(ctx, vKey, "/src1") == nil) // precondition of this harness ("first_store"), not a clause of the property
	verif.Advance(10 * time.Millisecond)
	if verif.Bool("twoVersionsBefore") {
		verif.Assume(a.cache.Store(ctx, vKey, "/src2") == nil) // precondition of this harness ("second_store"), not a clause of the property
		verif.Advance(10 * time.Millisecond)
	}
	k := verif.Len("k", 1, 40) // a CleanEntry issues far fewer operations than a Store
	n, ran := 0, false
	var errB error
	b := vNewClient(kind, inner)
	c := vNewClient(kind, inner)
	c.rec.before = func(op *vOp) error {
		if vIsHeartbeat(op) {
			return nil
		}
		n++
		if n == k && !ran {
			ran = true
			verif.Advance(5 * time.Millisecond)
			errB = b.cache.Store(ctx, vKey, "/src3")
			verif.Advance(5 * time.Millisecond)
		}
		return nil
	}
	_ = c.cache.CleanEntry(ctx, vKey)
	verif.Assume(ran)
	verif.Advance(10 * time.Millisecond)
	d := vNewClient(kind, inner)
	err3 := d.cache.Fetch(ctx, vKey, "/dest")
	if errB == nil {
		verif.Assert("fetch_after_a_successful_store_succeeds", err3 == nil)
		verif.Assert("a_successful_store_is_what_fetch_returns", vWhichVersion(inner, "/dest", 3) == 3)
	} else if err3 == nil {
		v := vWhichVersion(inner, "/dest", 3)
		verif.Assert("fetch_installs_one_complete_version", v >= 1 && v <= 3)
	}
}

func VerifC16_Probe() {
	kind := CacheTypes[verif.Choice("kind", 2)]
	inner := vSetup(kind, 2)
	a := vNewClient(kind, inner)
	ctx := context.Background()
	key := vKey
	verif.Assume(a.cache.Store(ctx, key, "/src1") == nil) // precondition of this harness ("store1"), not a clause of the property
	store1 := 0
	for i := range a.rec.log {
		if !vIsHeartbeat(&a.rec.log[i]) {
			store1++
		}
	}
	if verif.Symbolic() {
		// the bound used for k covers every operation of a Store as the engine runs it (a native run issues a
		// different number of operations: read loops, retries and heartbeats follow allocator and real time)
		if store1 >= vMaxStoreOps {
			verif.Unsupported("a Store issues more backend operations than the range explored for k: raise vMaxStoreOps")
		}
	}
	verif.Advance(10 * time.Millisecond)
	verif.Assume(a.cache.Fetch(ctx, key, "/dest") == nil) // precondition of this harness ("fetch1"), not a clause of the property
	verif.Assert("fetched_v1", vWhichVersion(inner, "/dest", 2) == 1)
	verif.Assume(a.cache.Store(ctx, key, "/src2") == nil) // precondition of this harness ("store2"), not a clause of the property
	verif.Advance(10 * time.Millisecond)
	verif.Assume(a.cache.Fetch(ctx, key, "/dest") == nil) // precondition of this harness ("fetch2"), not a clause of the property
	verif.Assert("fetched_v2", vWhichVersion(inner, "/dest", 2) == 2)
	counted := 0
	for i := range a.rec.log {
		if !vIsHeartbeat(&a.rec.log[i]) {
			counted++
		}
	}
	_ = counted
}
