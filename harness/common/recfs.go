package filesystem

// Shared harness support: a recording afero.Fs wrapper (every backend
// operation is logged; faults and cancellations can be injected per
// operation) and helpers to build real zip archives and to walk a backend.

import (
	"archive/zip"
	"bytes"
	"compress/flate"
	"errors"
	"hash/crc32"
	"io"
	"os"
	"sort"
	"time"

	"github.com/spf13/afero"
)

type vOp struct {
	name     string
	path     string
	path2    string
	mutating bool
	failed   bool
}

type vRecFs struct {
	inner  afero.Fs
	log    []vOp
	opens  int
	closes int
	written map[string]int64 // path -> most bytes ever written through one handle
	// before, if set, runs before every operation; a non-nil error makes the
	// operation fail with it, without any effect on the backend.
	before func(op *vOp) error
}

func newRecFs(inner afero.Fs) *vRecFs { return &vRecFs{inner: inner} }

func (r *vRecFs) rec(name, path, path2 string, mutating bool) (*vOp, error) {
	r.log = append(r.log, vOp{name: name, path: path, path2: path2, mutating: mutating})
	op := &r.log[len(r.log)-1]
	if r.before != nil {
		if err := r.before(op); err != nil {
			op.failed = true
			return op, err
		}
	}
	return op, nil
}

func (r *vRecFs) reset() { r.log = nil; r.opens = 0; r.closes = 0; r.written = nil }

func (r *vRecFs) mutations() []vOp {
	var m []vOp
	for _, op := range r.log {
		if op.mutating {
			m = append(m, op)
		}
	}
	return m
}

func (r *vRecFs) wrap(f afero.File, err error, path string) (afero.File, error) {
	if err != nil || f == nil {
		return f, err
	}
	r.opens++
	return &vRecFile{File: f, fs: r, path: path}, nil
}

func (r *vRecFs) Create(name string) (afero.File, error) {
	if _, err := r.rec("Create", name, "", true); err != nil {
		return nil, err
	}
	f, err := r.inner.Create(name)
	return r.wrap(f, err, name)
}
func (r *vRecFs) Mkdir(name string, perm os.FileMode) error {
	if _, err := r.rec("Mkdir", name, "", true); err != nil {
		return err
	}
	return r.inner.Mkdir(name, perm)
}
func (r *vRecFs) MkdirAll(path string, perm os.FileMode) error {
	if _, err := r.rec("MkdirAll", path, "", true); err != nil {
		return err
	}
	return r.inner.MkdirAll(path, perm)
}
func (r *vRecFs) Open(name string) (afero.File, error) {
	if _, err := r.rec("Open", name, "", false); err != nil {
		return nil, err
	}
	f, err := r.inner.Open(name)
	return r.wrap(f, err, name)
}
func (r *vRecFs) OpenFile(name string, flag int, perm os.FileMode) (afero.File, error) {
	mut := flag&(os.O_WRONLY|os.O_RDWR|os.O_CREATE|os.O_TRUNC|os.O_APPEND) != 0
	if _, err := r.rec("OpenFile", name, "", mut); err != nil {
		return nil, err
	}
	f, err := r.inner.OpenFile(name, flag, perm)
	return r.wrap(f, err, name)
}
func (r *vRecFs) Remove(name string) error {
	if _, err := r.rec("Remove", name, "", true); err != nil {
		return err
	}
	return r.inner.Remove(name)
}
func (r *vRecFs) RemoveAll(path string) error {
	if _, err := r.rec("RemoveAll", path, "", true); err != nil {
		return err
	}
	return r.inner.RemoveAll(path)
}
func (r *vRecFs) Rename(oldname, newname string) error {
	if _, err := r.rec("Rename", oldname, newname, true); err != nil {
		return err
	}
	return r.inner.Rename(oldname, newname)
}
func (r *vRecFs) Stat(name string) (os.FileInfo, error) {
	if _, err := r.rec("Stat", name, "", false); err != nil {
		return nil, err
	}
	return r.inner.Stat(name)
}
func (r *vRecFs) Name() string { return "vRecFs" }
func (r *vRecFs) Chmod(name string, mode os.FileMode) error {
	if _, err := r.rec("Chmod", name, "", true); err != nil {
		return err
	}
	return r.inner.Chmod(name, mode)
}
func (r *vRecFs) Chown(name string, uid, gid int) error {
	if _, err := r.rec("Chown", name, "", true); err != nil {
		return err
	}
	return r.inner.Chown(name, uid, gid)
}
func (r *vRecFs) Chtimes(name string, atime time.Time, mtime time.Time) error {
	if _, err := r.rec("Chtimes", name, "", true); err != nil {
		return err
	}
	return r.inner.Chtimes(name, atime, mtime)
}
func (r *vRecFs) LstatIfPossible(name string) (os.FileInfo, bool, error) {
	if _, err := r.rec("Lstat", name, "", false); err != nil {
		return nil, false, err
	}
	if l, ok := r.inner.(afero.Lstater); ok {
		return l.LstatIfPossible(name)
	}
	fi, err := r.inner.Stat(name)
	return fi, false, err
}

type vRecFile struct {
	afero.File
	fs     *vRecFs
	path   string
	closed bool
	maxLen int64 // high-water mark of bytes written through this handle
	wrote  int64
}

func (f *vRecFile) Close() error {
	if _, err := f.fs.rec("Close", f.path, "", false); err != nil {
		return err
	}
	if !f.closed {
		f.closed = true
		f.fs.closes++
	}
	return f.File.Close()
}
func (f *vRecFile) Read(p []byte) (int, error) {
	if _, err := f.fs.rec("Read", f.path, "", false); err != nil {
		return 0, err
	}
	return f.File.Read(p)
}
func (f *vRecFile) ReadAt(p []byte, off int64) (int, error) {
	if _, err := f.fs.rec("ReadAt", f.path, "", false); err != nil {
		return 0, err
	}
	return f.File.ReadAt(p, off)
}
// errVerifPartial, returned by a before hook for a Write, makes that write
// store only the first half of its data and then fail (a short write).
var errVerifPartial = errors.New("verif: short write")

func (f *vRecFile) Write(p []byte) (int, error) {
	if _, err := f.fs.rec("Write", f.path, "", true); err != nil {
		if err == errVerifPartial {
			n, _ := f.File.Write(p[:len(p)/2])
			f.wrote += int64(n)
			return n, io.ErrShortWrite
		}
		return 0, err
	}
	n, err := f.File.Write(p)
	f.wrote += int64(n)
	if f.wrote > f.maxLen {
		f.maxLen = f.wrote
	}
	if f.wrote > f.fs.maxWritten(f.path) {
		f.fs.setMaxWritten(f.path, f.wrote)
	}
	return n, err
}
func (f *vRecFile) WriteString(s string) (int, error) { return f.Write([]byte(s)) }
func (f *vRecFile) WriteAt(p []byte, off int64) (int, error) {
	if _, err := f.fs.rec("WriteAt", f.path, "", true); err != nil {
		return 0, err
	}
	return f.File.WriteAt(p, off)
}
func (f *vRecFile) Truncate(size int64) error {
	if _, err := f.fs.rec("Truncate", f.path, "", true); err != nil {
		return err
	}
	return f.File.Truncate(size)
}
func (f *vRecFile) Readdir(count int) ([]os.FileInfo, error) {
	if _, err := f.fs.rec("Readdir", f.path, "", false); err != nil {
		return nil, err
	}
	return f.File.Readdir(count)
}
func (f *vRecFile) Readdirnames(n int) ([]string, error) {
	if _, err := f.fs.rec("Readdirnames", f.path, "", false); err != nil {
		return nil, err
	}
	return f.File.Readdirnames(n)
}

func (r *vRecFs) maxWritten(path string) int64 { return r.written[path] }
func (r *vRecFs) setMaxWritten(path string, n int64) {
	if r.written == nil {
		r.written = map[string]int64{}
	}
	r.written[path] = n
}

// ---- tree snapshots ----

type vNode struct {
	path  string
	dir   bool
	size  int64
	data  string
	mtime time.Time
	mode  os.FileMode
}

// vSnapshot lists every entry below root (root excluded), sorted by path.
func vSnapshot(fs afero.Fs, root string) []vNode {
	var out []vNode
	var walk func(dir string)
	walk = func(dir string) {
		f, err := fs.Open(dir)
		if err != nil {
			return
		}
		infos, _ := f.Readdir(-1)
		_ = f.Close()
		sort.Slice(infos, func(a, b int) bool { return infos[a].Name() < infos[b].Name() })
		for _, fi := range infos {
			p := dir + "/" + fi.Name()
			if dir == "/" {
				p = "/" + fi.Name()
			}
			n := vNode{path: p, dir: fi.IsDir(), size: fi.Size(), mtime: fi.ModTime(), mode: fi.Mode()}
			if !fi.IsDir() {
				if b, err := afero.ReadFile(fs, p); err == nil {
					n.data = string(b)
				}
			}
			out = append(out, n)
			if fi.IsDir() {
				walk(p)
			}
		}
	}
	walk(root)
	return out
}

func vSameTree(a, b []vNode) bool {
	if len(a) != len(b) {
		return false
	}
	for i := range a {
		if a[i].path != b[i].path || a[i].dir != b[i].dir || a[i].data != b[i].data {
			return false
		}
	}
	return true
}

// vSameTreeStrict also compares permissions and modification times.
func vSameTreeStrict(a, b []vNode) bool {
	if !vSameTree(a, b) {
		return false
	}
	for i := range a {
		if a[i].mode != b[i].mode || !a[i].mtime.Equal(b[i].mtime) {
			return false
		}
	}
	return true
}

// ---- zip archives built with the real archive/zip writer ----

type vEntry struct {
	name     string
	content  []byte
	declared int64 // declared uncompressed size; -1: honest
	deflate  bool  // stored deflated (real compress/flate writer) instead of as is
	declaredHuge bool // the header declares 2^63 bytes (a zip64 size that is negative as an int64)
}

func vBuildZip(entries []vEntry) []byte {
	var buf bytes.Buffer
	w := zip.NewWriter(&buf)
	for _, e := range entries {
		h := &zip.FileHeader{Name: e.name, Method: zip.Store}
		h.Modified = time.Date(2020, 2, 3, 4, 5, 6, 0, time.UTC)
		isDir := len(e.name) > 0 && e.name[len(e.name)-1] == '/'
		if isDir {
			if _, err := w.CreateHeader(h); err != nil {
				panic(err)
			}
			continue
		}
		h.CRC32 = crc32.ChecksumIEEE(e.content)
		stored := e.content
		if e.deflate {
			var cb bytes.Buffer
			fw, err := flate.NewWriter(&cb, flate.BestCompression)
			if err != nil {
				panic(err)
			}
			_, _ = fw.Write(e.content)
			_ = fw.Close()
			stored = cb.Bytes()
			h.Method = zip.Deflate
		}
		h.CompressedSize64 = uint64(len(stored))
		h.UncompressedSize64 = uint64(len(e.content))
		if e.declared >= 0 {
			h.UncompressedSize64 = uint64(e.declared)
		}
		if e.declaredHuge {
			h.UncompressedSize64 = 1 << 63
		}
		fw, err := w.CreateRaw(h)
		if err != nil {
			panic(err)
		}
		if _, err := fw.Write(stored); err != nil {
			panic(err)
		}
	}
	if err := w.Close(); err != nil {
		panic(err)
	}
	return buf.Bytes()
}

// vPathInside: is the cleaned absolute path p equal to or below dir?
func vPathInside(dir, p string) bool {
	if p == dir {
		return true
	}
	if dir == "/" {
		return len(p) > 0 && p[0] == '/'
	}
	return len(p) > len(dir) && p[:len(dir)] == dir && p[len(dir)] == '/'
}
