package filesystem

// vLinkFs: a small in-memory afero.Fs with POSIX path resolution and symbolic
// links (afero's MemMapFs has none). Stat/Open/Chmod/Chtimes/Mkdir follow
// links, Lstat/Remove/Rename/Readlink/Symlink do not follow the last
// component. Mkdir is atomic create-if-absent. Every operation is logged and
// can be intercepted (fault injection, interference by other actors).

import (
	"io"
	"os"
	"sort"
	"sync"
	"syscall"
	"time"

	"github.com/spf13/afero"
)

// vlMaxHops: link chains longer than this report ELOOP (real systems allow ~40;
// a small value keeps walks through link loops tractable).
const vlMaxHops = 3

const (
	vlFile = 1
	vlDir  = 2
	vlLink = 3
)

type vLNode struct {
	kind   int
	data   []byte
	target string
	mode   os.FileMode
	mtime  time.Time
	atime  time.Time
	uid    int // owner (0 unless a harness sets it; Chown follows links like chown(2))
	gid    int
}

type vLinkFs struct {
	mu     sync.Mutex // natively the heartbeat goroutines run in parallel with the harness
	nodes  map[string]*vLNode // cleaned absolute path -> node ("/" always present)
	log    []vOp
	opens  int
	closes int
	before func(op *vOp) error
	clock  func() time.Time
}

func newLinkFs() *vLinkFs {
	fs := &vLinkFs{nodes: map[string]*vLNode{}}
	fs.nodes["/"] = &vLNode{kind: vlDir, mode: 0o755}
	return fs
}

func (fs *vLinkFs) now() time.Time {
	if fs.clock != nil {
		return fs.clock()
	}
	return time.Now()
}

func (fs *vLinkFs) rec(name, path, path2 string, mutating bool) error {
	fs.mu.Lock()
	fs.log = append(fs.log, vOp{name: name, path: path, path2: path2, mutating: mutating})
	op := fs.log[len(fs.log)-1]
	hook := fs.before
	fs.mu.Unlock()
	if hook != nil {
		// runs without the lock: the hook may call back into the filesystem (interference)
		if err := hook(&op); err != nil {
			return err
		}
	}
	return nil
}

func (fs *vLinkFs) reset() { fs.log = nil; fs.opens = 0; fs.closes = 0 }

func (fs *vLinkFs) mutations() []vOp {
	var m []vOp
	for _, op := range fs.log {
		if op.mutating {
			m = append(m, op)
		}
	}
	return m
}

func vlSplit(p string) []string {
	var parts []string
	start := 0
	for i := 0; i <= len(p); i++ {
		if i == len(p) || p[i] == '/' {
			if i > start {
				parts = append(parts, p[start:i])
			}
			start = i + 1
		}
	}
	return parts
}

func vlJoin(parts []string) string {
	if len(parts) == 0 {
		return "/"
	}
	r := ""
	for _, c := range parts {
		r += "/" + c
	}
	return r
}

func pathErr(op, path string, errno syscall.Errno) error {
	return &os.PathError{Op: op, Path: path, Err: errno}
}

// resolve walks path; it returns the real (link-free) location of the entry.
// followLast: resolve a link in the last component too. The entry itself may
// be absent (node == nil) when its parent exists.
func (fs *vLinkFs) resolve(op, path string, followLast bool) (real string, node *vLNode, err error) {
	if path == "" {
		return "", nil, pathErr(op, path, syscall.ENOENT)
	}
	pending := vlSplit(path) // relative paths are taken from the root
	var cur []string
	hops := 0
	for len(pending) > 0 {
		c := pending[0]
		pending = pending[1:]
		if c == "." {
			continue
		}
		if c == ".." {
			if len(cur) > 0 {
				cur = cur[:len(cur)-1]
			}
			continue
		}
		parent := fs.nodes[vlJoin(cur)]
		if parent == nil {
			return "", nil, pathErr(op, path, syscall.ENOENT)
		}
		if parent.kind != vlDir {
			return "", nil, pathErr(op, path, syscall.ENOTDIR)
		}
		next := append(append([]string{}, cur...), c)
		n := fs.nodes[vlJoin(next)]
		last := len(pending) == 0
		if n != nil && n.kind == vlLink && (!last || followLast) {
			hops++
			if hops > vlMaxHops {
				return "", nil, pathErr(op, path, syscall.ELOOP)
			}
			t := vlSplit(n.target)
			if len(n.target) > 0 && n.target[0] == '/' {
				cur = nil
			}
			pending = append(t, pending...)
			continue
		}
		if n == nil && !last {
			return "", nil, pathErr(op, path, syscall.ENOENT)
		}
		cur = next
	}
	real = vlJoin(cur)
	return real, fs.nodes[real], nil
}

func (fs *vLinkFs) children(dir string) []string {
	var names []string
	prefix := dir + "/"
	if dir == "/" {
		prefix = "/"
	}
	for p := range fs.nodes {
		if p == dir || len(p) <= len(prefix) || p[:len(prefix)] != prefix {
			continue
		}
		rest := p[len(prefix):]
		slash := false
		for i := 0; i < len(rest); i++ {
			if rest[i] == '/' {
				slash = true
			}
		}
		if !slash {
			names = append(names, rest)
		}
	}
	sort.Strings(names)
	return names
}

type vLInfo struct {
	name  string
	size  int64
	mode  os.FileMode
	mtime time.Time
}

func (i *vLInfo) Name() string       { return i.name }
func (i *vLInfo) Size() int64        { return i.size }
func (i *vLInfo) Mode() os.FileMode  { return i.mode }
func (i *vLInfo) ModTime() time.Time { return i.mtime }
func (i *vLInfo) IsDir() bool        { return i.mode.IsDir() }
func (i *vLInfo) Sys() interface{}   { return nil }

func vlBase(p string) string {
	parts := vlSplit(p)
	if len(parts) == 0 {
		return "/"
	}
	return parts[len(parts)-1]
}

func (fs *vLinkFs) info(path string, n *vLNode) os.FileInfo {
	mode := n.mode
	switch n.kind {
	case vlDir:
		mode |= os.ModeDir
	case vlLink:
		mode |= os.ModeSymlink
	}
	return &vLInfo{name: vlBase(path), size: int64(len(n.data)), mode: mode, mtime: n.mtime}
}

func (fs *vLinkFs) Name() string { return "vLinkFs" }

func (fs *vLinkFs) Stat(name string) (os.FileInfo, error) {
	if err := fs.rec("Stat", name, "", false); err != nil {
		return nil, err
	}
	fs.mu.Lock()
	defer fs.mu.Unlock()
	real, n, err := fs.resolve("stat", name, true)
	if err != nil {
		return nil, err
	}
	if n == nil {
		return nil, pathErr("stat", name, syscall.ENOENT)
	}
	return fs.info(real, n), nil
}

func (fs *vLinkFs) LstatIfPossible(name string) (os.FileInfo, bool, error) {
	if err := fs.rec("Lstat", name, "", false); err != nil {
		return nil, true, err
	}
	fs.mu.Lock()
	defer fs.mu.Unlock()
	real, n, err := fs.resolve("lstat", name, false)
	if err != nil {
		return nil, true, err
	}
	if n == nil {
		return nil, true, pathErr("lstat", name, syscall.ENOENT)
	}
	return fs.info(real, n), true, nil
}

func (fs *vLinkFs) ReadlinkIfPossible(name string) (string, error) {
	if err := fs.rec("Readlink", name, "", false); err != nil {
		return "", err
	}
	fs.mu.Lock()
	defer fs.mu.Unlock()
	_, n, err := fs.resolve("readlink", name, false)
	if err != nil {
		return "", err
	}
	if n == nil {
		return "", pathErr("readlink", name, syscall.ENOENT)
	}
	if n.kind != vlLink {
		return "", pathErr("readlink", name, syscall.EINVAL)
	}
	return n.target, nil
}

func (fs *vLinkFs) SymlinkIfPossible(oldname, newname string) error {
	if err := fs.rec("Symlink", newname, oldname, true); err != nil {
		return err
	}
	fs.mu.Lock()
	defer fs.mu.Unlock()
	real, n, err := fs.resolve("symlink", newname, false)
	if err != nil {
		return err
	}
	if n != nil {
		return pathErr("symlink", newname, syscall.EEXIST)
	}
	fs.nodes[real] = &vLNode{kind: vlLink, target: oldname, mode: 0o777, mtime: fs.now()}
	return nil
}

func (fs *vLinkFs) Mkdir(name string, perm os.FileMode) error {
	if err := fs.rec("Mkdir", name, "", true); err != nil {
		return err
	}
	fs.mu.Lock()
	defer fs.mu.Unlock()
	real, n, err := fs.resolve("mkdir", name, false)
	if err != nil {
		return err
	}
	if n != nil {
		return pathErr("mkdir", name, syscall.EEXIST)
	}
	t := fs.now()
	fs.nodes[real] = &vLNode{kind: vlDir, mode: perm & os.ModePerm, mtime: t, atime: t}
	return nil
}

func (fs *vLinkFs) MkdirAll(path string, perm os.FileMode) error {
	if err := fs.rec("MkdirAll", path, "", true); err != nil {
		return err
	}
	fs.mu.Lock()
	defer fs.mu.Unlock()
	parts := vlSplit(path)
	for k := 1; k <= len(parts); k++ {
		sub := vlJoin(parts[:k])
		real, n, err := fs.resolve("mkdir", sub, true)
		if err != nil {
			return err
		}
		if n == nil {
			t := fs.now()
			fs.nodes[real] = &vLNode{kind: vlDir, mode: perm & os.ModePerm, mtime: t, atime: t}
		} else if n.kind != vlDir {
			return pathErr("mkdir", sub, syscall.ENOTDIR)
		}
	}
	return nil
}

func (fs *vLinkFs) Remove(name string) error {
	if err := fs.rec("Remove", name, "", true); err != nil {
		return err
	}
	fs.mu.Lock()
	defer fs.mu.Unlock()
	real, n, err := fs.resolve("remove", name, false)
	if err != nil {
		return err
	}
	if n == nil {
		return pathErr("remove", name, syscall.ENOENT)
	}
	if n.kind == vlDir && len(fs.children(real)) > 0 {
		return pathErr("remove", name, syscall.ENOTEMPTY)
	}
	if real == "/" {
		return pathErr("remove", name, syscall.EBUSY)
	}
	delete(fs.nodes, real)
	return nil
}

func (fs *vLinkFs) RemoveAll(path string) error {
	if err := fs.rec("RemoveAll", path, "", true); err != nil {
		return err
	}
	fs.mu.Lock()
	defer fs.mu.Unlock()
	real, n, err := fs.resolve("removeall", path, false)
	if err != nil || n == nil {
		return nil
	}
	for p := range fs.nodes {
		if p == real || (len(p) > len(real) && p[:len(real)] == real && p[len(real)] == '/') {
			if p != "/" {
				delete(fs.nodes, p)
			}
		}
	}
	return nil
}

func (fs *vLinkFs) Rename(oldname, newname string) error {
	if err := fs.rec("Rename", oldname, newname, true); err != nil {
		return err
	}
	fs.mu.Lock()
	defer fs.mu.Unlock()
	ro, no, err := fs.resolve("rename", oldname, false)
	if err != nil {
		return err
	}
	if no == nil {
		return pathErr("rename", oldname, syscall.ENOENT)
	}
	rn, nn, err := fs.resolve("rename", newname, false)
	if err != nil {
		return err
	}
	if nn != nil && nn.kind == vlDir && len(fs.children(rn)) > 0 {
		return pathErr("rename", newname, syscall.ENOTEMPTY)
	}
	moved := map[string]*vLNode{}
	for p, n := range fs.nodes {
		if p == ro || (len(p) > len(ro) && p[:len(ro)] == ro && p[len(ro)] == '/') {
			moved[rn+p[len(ro):]] = n
			delete(fs.nodes, p)
		}
	}
	for p, n := range moved {
		fs.nodes[p] = n
	}
	return nil
}

func (fs *vLinkFs) Chmod(name string, mode os.FileMode) error {
	if err := fs.rec("Chmod", name, "", true); err != nil {
		return err
	}
	fs.mu.Lock()
	defer fs.mu.Unlock()
	_, n, err := fs.resolve("chmod", name, true)
	if err != nil {
		return err
	}
	if n == nil {
		return pathErr("chmod", name, syscall.ENOENT)
	}
	n.mode = mode & os.ModePerm
	return nil
}

func (fs *vLinkFs) Chown(name string, uid, gid int) error {
	if err := fs.rec("Chown", name, "", true); err != nil {
		return err
	}
	fs.mu.Lock()
	defer fs.mu.Unlock()
	_, n, err := fs.resolve("chown", name, true)
	if err != nil {
		return err
	}
	if n == nil {
		return pathErr("chown", name, syscall.ENOENT)
	}
	n.uid, n.gid = uid, gid
	return nil
}

func (fs *vLinkFs) Chtimes(name string, atime time.Time, mtime time.Time) error {
	if err := fs.rec("Chtimes", name, "", true); err != nil {
		return err
	}
	fs.mu.Lock()
	defer fs.mu.Unlock()
	_, n, err := fs.resolve("chtimes", name, true)
	if err != nil {
		return err
	}
	if n == nil {
		return pathErr("chtimes", name, syscall.ENOENT)
	}
	n.atime, n.mtime = atime, mtime
	return nil
}

func (fs *vLinkFs) Create(name string) (afero.File, error) {
	return fs.OpenFile(name, os.O_RDWR|os.O_CREATE|os.O_TRUNC, 0o666)
}

func (fs *vLinkFs) Open(name string) (afero.File, error) {
	return fs.OpenFile(name, os.O_RDONLY, 0)
}

func (fs *vLinkFs) OpenFile(name string, flag int, perm os.FileMode) (afero.File, error) {
	mut := flag&(os.O_WRONLY|os.O_RDWR|os.O_CREATE|os.O_TRUNC|os.O_APPEND) != 0
	if err := fs.rec("OpenFile", name, "", mut); err != nil {
		return nil, err
	}
	fs.mu.Lock()
	defer fs.mu.Unlock()
	real, n, err := fs.resolve("open", name, true)
	if err != nil {
		return nil, err
	}
	if n == nil {
		if flag&os.O_CREATE == 0 {
			return nil, pathErr("open", name, syscall.ENOENT)
		}
		t := fs.now()
		n = &vLNode{kind: vlFile, mode: perm & os.ModePerm, mtime: t, atime: t}
		fs.nodes[real] = n
	} else if flag&os.O_EXCL != 0 && flag&os.O_CREATE != 0 {
		return nil, pathErr("open", name, syscall.EEXIST)
	}
	if n.kind == vlDir && flag&(os.O_WRONLY|os.O_RDWR) != 0 {
		return nil, pathErr("open", name, syscall.EISDIR)
	}
	if n.kind == vlFile && flag&os.O_TRUNC != 0 {
		n.data = nil
		n.mtime = fs.now()
	}
	fs.opens++
	f := &vLFile{fs: fs, path: real, name: name, node: n, flag: flag}
	if flag&os.O_APPEND != 0 {
		f.off = int64(len(n.data))
	}
	return f, nil
}

type vLFile struct {
	fs      *vLinkFs
	path    string
	name    string
	node    *vLNode
	flag    int
	off     int64
	closed  bool
	dirRead int
}

func (f *vLFile) Name() string { return f.name }
func (f *vLFile) Close() error {
	if err := f.fs.rec("Close", f.path, "", false); err != nil {
		return err
	}
	f.fs.mu.Lock()
	defer f.fs.mu.Unlock()
	if f.closed {
		return afero.ErrFileClosed
	}
	f.closed = true
	f.fs.closes++
	return nil
}
func (f *vLFile) Read(p []byte) (int, error) {
	if err := f.fs.rec("Read", f.path, "", false); err != nil {
		return 0, err
	}
	f.fs.mu.Lock()
	defer f.fs.mu.Unlock()
	if f.closed {
		return 0, afero.ErrFileClosed
	}
	if f.node.kind == vlDir {
		return 0, pathErr("read", f.name, syscall.EISDIR)
	}
	if f.off >= int64(len(f.node.data)) {
		return 0, io.EOF
	}
	n := copy(p, f.node.data[f.off:])
	f.off += int64(n)
	return n, nil
}
func (f *vLFile) ReadAt(p []byte, off int64) (int, error) {
	if err := f.fs.rec("ReadAt", f.path, "", false); err != nil {
		return 0, err
	}
	f.fs.mu.Lock()
	defer f.fs.mu.Unlock()
	if off >= int64(len(f.node.data)) {
		return 0, io.EOF
	}
	n := copy(p, f.node.data[off:])
	if n < len(p) {
		return n, io.EOF
	}
	return n, nil
}
func (f *vLFile) Seek(offset int64, whence int) (int64, error) {
	switch whence {
	case io.SeekStart:
		f.off = offset
	case io.SeekCurrent:
		f.off += offset
	case io.SeekEnd:
		f.off = int64(len(f.node.data)) + offset
	}
	return f.off, nil
}
func (f *vLFile) Write(p []byte) (int, error) {
	if err := f.fs.rec("Write", f.path, "", true); err != nil {
		return 0, err
	}
	f.fs.mu.Lock()
	defer f.fs.mu.Unlock()
	if f.closed {
		return 0, afero.ErrFileClosed
	}
	if f.flag&(os.O_WRONLY|os.O_RDWR) == 0 {
		return 0, pathErr("write", f.name, syscall.EBADF)
	}
	for int64(len(f.node.data)) < f.off {
		f.node.data = append(f.node.data, 0)
	}
	f.node.data = append(f.node.data[:f.off], p...)
	f.off += int64(len(p))
	f.node.mtime = f.fs.now()
	return len(p), nil
}
func (f *vLFile) WriteAt(p []byte, off int64) (int, error) {
	f.off = off
	return f.Write(p)
}
func (f *vLFile) WriteString(s string) (int, error) { return f.Write([]byte(s)) }
func (f *vLFile) Readdir(count int) ([]os.FileInfo, error) {
	names, err := f.Readdirnames(count)
	var infos []os.FileInfo
	for _, n := range names {
		p := f.path + "/" + n
		if f.path == "/" {
			p = "/" + n
		}
		if node := f.fs.nodes[p]; node != nil {
			infos = append(infos, f.fs.info(p, node))
		}
	}
	return infos, err
}
func (f *vLFile) Readdirnames(n int) ([]string, error) {
	if err := f.fs.rec("Readdirnames", f.path, "", false); err != nil {
		return nil, err
	}
	f.fs.mu.Lock()
	defer f.fs.mu.Unlock()
	if f.closed {
		return nil, afero.ErrFileClosed
	}
	if f.node.kind != vlDir {
		return nil, pathErr("readdirent", f.name, syscall.ENOTDIR)
	}
	all := f.fs.children(f.path)
	if f.dirRead > len(all) {
		f.dirRead = len(all)
	}
	rest := all[f.dirRead:]
	if n <= 0 {
		f.dirRead = len(all)
		return rest, nil
	}
	if len(rest) == 0 {
		return nil, io.EOF
	}
	if n < len(rest) {
		rest = rest[:n]
	}
	f.dirRead += len(rest)
	return rest, nil
}
func (f *vLFile) Stat() (os.FileInfo, error) { return f.fs.info(f.path, f.node), nil }
func (f *vLFile) Sync() error                { return nil }
func (f *vLFile) Truncate(size int64) error {
	if err := f.fs.rec("Truncate", f.path, "", true); err != nil {
		return err
	}
	f.fs.mu.Lock()
	defer f.fs.mu.Unlock()
	if size < int64(len(f.node.data)) {
		f.node.data = f.node.data[:size]
	}
	return nil
}

// snapshot of the whole link filesystem, sorted by path
type vLEntry struct {
	path   string
	kind   int
	data   string
	target string
	uid    int
	gid    int
}

func (fs *vLinkFs) snapshot() []vLEntry {
	fs.mu.Lock()
	defer fs.mu.Unlock()
	var out []vLEntry
	for p, n := range fs.nodes {
		out = append(out, vLEntry{path: p, kind: n.kind, data: string(n.data), target: n.target, uid: n.uid, gid: n.gid})
	}
	sort.Slice(out, func(a, b int) bool { return out[a].path < out[b].path })
	return out
}
