package filesystem

import (
	"github.com/ARM-software/golang-utils/utils/hashing"
	"bytes"
	"context"
	"os"
	"time"

	"github.com/ARM-software/golang-utils/utils/commonerrors"
	"github.com/ARM-software/golang-utils/utils/zz_verif/verif"
)

// vPopulate builds /r with n files f0..f(n-1) in sub-directories of two, and an archive.
func vPopulate(fs FS, n int) {
	_ = fs.MkDir("/r")
	for i := 0; i < n; i++ {
		d := "/r/d" + string(rune('0'+i/2))
		_ = fs.MkDir(d)
		_ = fs.WriteFile(d+"/f"+string(rune('0'+i)), []byte("data"), 0o644)
	}
	// a wide, flat directory: loops over plain files of one directory must consult the context too
	_ = fs.MkDir("/wide")
	for i := 0; i < 48; i++ {
		_ = fs.WriteFile("/wide/w"+string(rune('a'+i/26))+string(rune('a'+i%26)), []byte("w"), 0o644)
	}
	_ = fs.WriteFile("/single", []byte("single"), 0o644)
	_ = fs.WriteFile("/a.zip", vBuildZip([]vEntry{{name: "x", content: []byte("x"), declared: -1}, {name: "y/z", content: []byte("z"), declared: -1}}), 0o644)
	// an archive that is mostly directory entries (they take a different path through unzip)
	var dirs []vEntry
	for i := 0; i < 4*n; i++ {
		dirs = append(dirs, vEntry{name: "e" + string(rune('a'+i/26)) + string(rune('a'+i%26)) + "/", declared: -1})
	}
	dirs = append(dirs, vEntry{name: "last", content: []byte("l"), declared: -1})
	_ = fs.WriteFile("/dirs.zip", vBuildZip(dirs), 0o644)
}

const vNumCtxOps = 40

// vCtxOp invokes the k-th context-accepting entry point.
func vCtxOp(ctx context.Context, fs FS, k int) error {
	var err error
	switch k {
	case 0:
		err = fs.CleanDirWithContext(ctx, "/r")
	case 1:
		err = fs.CleanDirWithContextAndExclusionPatterns(ctx, "/r", "zz")
	case 2:
		err = fs.RemoveWithContext(ctx, "/r")
	case 3:
		err = fs.RemoveWithContextAndExclusionPatterns(ctx, "/r", "zz")
	case 4:
		err = fs.WalkWithContext(ctx, "/r", func(string, os.FileInfo, error) error { return nil })
	case 5:
		_, err = fs.LsRecursive(ctx, "/r", true)
	case 6:
		_, err = fs.LsRecursiveWithExclusionPatterns(ctx, "/r", false, "zz")
	case 7:
		err = fs.CopyToFileWithContext(ctx, "/single", "/copy")
	case 8:
		err = fs.CopyToDirectoryWithContext(ctx, "/single", "/dstdir")
	case 9:
		err = fs.CopyWithContext(ctx, "/r", "/dst")
	case 10:
		err = fs.CopyWithContextAndExclusionPatterns(ctx, "/r", "/dst", "zz")
	case 11:
		err = fs.MoveWithContext(ctx, "/r", "/moved")
	case 12:
		_, err = fs.ReadFileWithContext(ctx, "/single")
	case 13:
		_, err = fs.ReadFileWithContextAndLimits(ctx, "/single", DefaultLimits())
	case 14:
		err = fs.WriteFileWithContext(ctx, "/new", []byte("new"), 0o644)
	case 15:
		_, err = fs.WriteToFile(ctx, "/new2", bytes.NewReader([]byte("new")), 0o644)
	case 16:
		err = fs.GarbageCollectWithContext(ctx, "/r", time.Nanosecond)
	case 17:
		err = fs.ChmodRecursively(ctx, "/r", 0o700)
	case 18:
		_, err = fs.SubDirectoriesWithContext(ctx, "/r")
	case 19:
		var l []string
		err = fs.ListDirTreeWithContext(ctx, "/r", &l)
	case 20:
		err = fs.ZipWithContext(ctx, "/r", "/out.zip")
	case 21:
		_, err = fs.UnzipWithContext(ctx, "/a.zip", "/unz")
	case 22:
		_, err = fs.UnzipWithContext(ctx, "/dirs.zip", "/unzd")
	case 23:
		err = fs.ChownRecursively(ctx, "/r", 1, 1)
	case 24:
		_, err = fs.LsRecursiveWithExclusionPatternsAndLimits(ctx, "/r", DefaultLimits(), true, "zz")
	case 25:
		_, err = fs.FileHashWithContext(ctx, hashing.HashSha256, "/single")
	case 26:
		_, err = fs.SubDirectoriesWithContextAndExclusionPatterns(ctx, "/r", "zz")
	case 27:
		var l []string
		err = fs.ListDirTreeWithContextAndExclusionPatterns(ctx, "/r", &l, "zz")
	case 28:
		_, err = fs.IsZipWithContext(ctx, "/a.zip")
	case 29:
		err = fs.ZipWithContextAndLimitsAndExclusionPatterns(ctx, "/r", "/out2.zip", DefaultLimits(), "zz")
	case 30:
		_, err = fs.UnzipWithContextAndLimits(ctx, "/a.zip", "/unz2", DefaultLimits())
	case 31:
		err = fs.WalkWithContextAndExclusionPatterns(ctx, "/r", func(string, os.FileInfo, error) error { return nil }, "zz")
	// the same kinds of traversal over the wide, flat directory
	case 32:
		var l []string
		err = fs.ListDirTreeWithContext(ctx, "/wide", &l)
	case 33:
		_, err = fs.LsRecursive(ctx, "/wide", true)
	case 34:
		err = fs.WalkWithContext(ctx, "/wide", func(string, os.FileInfo, error) error { return nil })
	case 35:
		err = fs.CleanDirWithContext(ctx, "/wide")
	case 36:
		err = fs.ChmodRecursively(ctx, "/wide", 0o700)
	case 37:
		err = fs.CopyWithContext(ctx, "/wide", "/widecopy")
	case 38:
		err = fs.ZipWithContext(ctx, "/wide", "/wide.zip")
	case 39:
		err = fs.GarbageCollectWithContext(ctx, "/wide", time.Nanosecond)
	}
	return err
}

// VerifC09_AlreadyDone: every context-accepting entry point, context already
// cancelled or expired: nothing changes, kind is cancelled / timeout.
func VerifC09_AlreadyDone() {
	rec, fs := vNewFs()
	vPopulate(fs, 3)
	before := vSnapshot(rec.inner, "/")
	rec.reset()
	var ctx context.Context
	var cancel context.CancelFunc
	expired := verif.Bool("expired")
	if expired {
		ctx, cancel = context.WithDeadline(context.Background(), time.Now().Add(-time.Second))
	} else {
		ctx, cancel = context.WithCancel(context.Background())
		cancel()
	}
	defer cancel()
	k := verif.Choice("op", vNumCtxOps)
	err := vCtxOp(ctx, fs, k)
	if expired {
		verif.Assert("expired_context_kind", err != nil && commonerrors.Any(err, commonerrors.ErrTimeout))
	} else {
		verif.Assert("cancelled_context_kind", err != nil && commonerrors.Any(err, commonerrors.ErrCancelled))
	}
	verif.Assert("nothing_changes", len(rec.mutations()) == 0 && vSameTree(before, vSnapshot(rec.inner, "/")))
	// (not a clause of this property -- handle hygiene is C06's -- so observed, not asserted)
	verif.Observe("handles_balanced", rec.opens == rec.closes)
}

// VerifC09_MidRun: the context ends after the j-th backend operation: only a
// bounded number of further backend operations, and the context kinds.
func VerifC09_MidRun() {
	n := 8
	if verif.Tier() > 0 {
		n = 12
	}
	rec, fs := vNewFs()
	vPopulate(fs, n)
	rec.reset()
	ctx, cancel := context.WithCancel(context.Background())
	defer cancel()
	ops := []int{0, 2, 4, 5, 9, 11, 16, 17, 19, 20, 21, 22, 23, 24, 26, 27, 29, 32, 33, 34, 35, 36, 37, 38, 39}
	k := ops[verif.Choice("op", len(ops))]
	cancelAfter := verif.Len("cancelAfter", 1, 12)
	count := 0
	after := 0
	rec.before = func(op *vOp) error {
		count++
		if ctx.Err() != nil {
			after++
		}
		if count == cancelAfter {
			cancel()
		}
		return nil
	}
	err := vCtxOp(ctx, fs, k)
	rec.before = nil
	verif.Observe("after", after)
	if count >= cancelAfter {
		verif.Reach("cancelled_mid_run")
		// bounded: the prelude of the call plus one loop iteration (one entry), a constant
		// that does not grow with the work that remains (>= 7 more entries of ~10 operations each)
		verif.Assert("bounded_backend_operations_after_cancellation", after <= 40)
		if err != nil {
			verif.Assert("mid_run_kinds", commonerrors.Any(err, commonerrors.ErrCancelled, commonerrors.ErrTimeout))
		}
	}
	verif.Observe("handles_balanced", rec.opens == rec.closes)
}

// VerifC09_LimitedRead: limited file reads refuse larger files.
func VerifC09_LimitedRead() {
	rec, fs := vNewFs()
	size := verif.Len("size", 0, 3)
	_ = fs.WriteFile("/f", bytes.Repeat([]byte("x"), size), 0o644)
	max := int64(verif.Len("maxFileSize", 0, 4))
	content, err := fs.ReadFileWithContextAndLimits(context.Background(), "/f", NewLimits(max, 1<<40, 10, -1, false))
	if int64(size) > max {
		verif.Assert("larger_file_refused_as_too_large", err != nil && commonerrors.Any(err, commonerrors.ErrTooLarge))
	} else if size > 0 {
		verif.Assert("file_within_limit_is_read_whole", err == nil && len(content) == size)
	}
	verif.Observe("handles_balanced", rec.opens == rec.closes)
}
