package safeio

import (
	"bytes"
	"fmt"
	"context"
	"errors"
	"io"

	"github.com/ARM-software/golang-utils/utils/commonerrors"
	"github.com/ARM-software/golang-utils/utils/zz_verif/verif"
)

var errVerifIO = errors.New("verif: injected I/O failure")

// vReader: a source stream with symbolic content and scripted behaviour.
type vReader struct {
	ctx        context.Context
	content    []byte
	pos        int
	failAt     int // fail once `failAt` bytes were delivered (-1: never)
	failWith   error
	cancel     context.CancelFunc
	cancelAt   int // cancel the context inside the Read call number cancelAt (1-based; 0: never)
	calls      int
	zeroReads  int
	afterDone  int // Read calls issued although the context had already ended
}

func (r *vReader) Read(p []byte) (int, error) {
	r.calls++
	if r.ctx != nil && r.ctx.Err() != nil {
		r.afterDone++
	}
	if r.cancelAt > 0 && r.calls == r.cancelAt && r.cancel != nil {
		r.cancel()
	}
	if r.failAt >= 0 && r.pos >= r.failAt {
		if r.failWith != nil {
			return 0, r.failWith
		}
		return 0, errVerifIO
	}
	if r.pos >= len(r.content) {
		return 0, io.EOF
	}
	if len(p) == 0 {
		return 0, nil
	}
	rem := len(r.content) - r.pos
	if r.failAt >= 0 && r.failAt-r.pos < rem {
		rem = r.failAt - r.pos
	}
	if len(p) < rem {
		rem = len(p)
	}
	lo := 1
	if r.zeroReads < 1 {
		lo = 0 // a reader may legitimately return (0, nil) now and then
	}
	hi := rem
	if hi > 2 {
		hi = 2
	}
	n := hi
	if lo < hi {
		n = verif.Len("chunk", lo, hi)
	}
	if n == 0 {
		r.zeroReads++
		return 0, nil
	}
	copy(p, r.content[r.pos:r.pos+n])
	r.pos += n
	return n, nil
}

// vWriter: a sink that records what it is given, may write short or fail.
type vWriter struct {
	data   []byte
	failAt int // fail once failAt bytes were accepted (-1: never)
}

func (w *vWriter) Write(p []byte) (int, error) {
	if w.failAt >= 0 && len(w.data)+len(p) > w.failAt {
		n := w.failAt - len(w.data)
		if n < 0 {
			n = 0
		}
		w.data = append(w.data, p[:n]...)
		return n, errVerifIO
	}
	w.data = append(w.data, p...)
	return len(p), nil
}

func vPrefixOf(a, b []byte) bool { // a is a prefix of b
	if len(a) > len(b) {
		return false
	}
	ok := true
	for i := range a {
		ok = verif.And(ok, a[i] == b[i])
	}
	return ok
}

func vSame(a, b []byte) bool { return len(a) == len(b) && vPrefixOf(a, b) }

func vMaxLen() int {
	if verif.Tier() > 0 {
		return 4
	}
	return 3
}

func vSetup() (context.Context, context.CancelFunc, *vReader, []byte) {
	L := verif.Len("L", 0, vMaxLen())
	content := verif.Bytes("content", L)
	ctx, cancel := context.WithCancel(context.Background())
	r := &vReader{ctx: ctx, content: content, failAt: -1, cancel: cancel}
	switch verif.Choice("scenario", 4) {
	case 0: // healthy
	case 1: // cancelled before the call
		cancel()
	case 2: // cancelled during the j-th Read
		r.cancelAt = verif.Len("cancelAt", 1, L+1)
	case 3: // source fails after k bytes: a plain I/O error, or the stream ending abruptly
		r.failAt = verif.Len("failAt", 0, L)
		switch verif.Choice("failWith", 3) {
		case 1:
			r.failWith = io.ErrUnexpectedEOF
		case 2:
			r.failWith = fmt.Errorf("verif: truncated stream: %w", io.EOF)
		}
	}
	return ctx, cancel, r, content
}

// VerifC09_ReadAtMost: bounded reads deliver an exact prefix.
func VerifC09_ReadAtMost() {
	ctx, cancel, r, content := vSetup()
	defer cancel()
	L := len(content)
	max := int64(verif.Len("max", -1, L+1))
	bufCap := int64(verif.Len("bufCap", -1, 1))
	preCancelled := ctx.Err() != nil
	got, err := ReadAtMost(ctx, r, max, bufCap)
	want := L
	if max >= 0 && int(max) < L {
		want = int(max)
	}
	verif.Assert("content_is_a_prefix_of_the_source", vPrefixOf(got, content))
	verif.Assert("never_more_than_max", max < 0 || int64(len(got)) <= max)
	verif.Assert("no_read_after_context_ended", r.afterDone == 0)
	if err == nil {
		verif.Observe("got", got)
		verif.Assert("success_delivers_exactly_the_prefix", len(got) == want)
	}
	if r.failAt >= 0 && r.failAt < want {
		verif.Assert("a_source_failing_early_is_reported", err != nil)
		if r.failWith != nil {
			verif.Assert("an_abrupt_end_is_the_eof_kind", commonerrors.Any(err, commonerrors.ErrEOF))
		}
	}
	if preCancelled {
		verif.Assert("already_cancelled_is_reported", commonerrors.Any(err, commonerrors.ErrCancelled) && r.calls == 0)
	}
	healthy := r.failAt < 0 && r.cancelAt == 0 && !preCancelled
	if healthy && want > 0 {
		verif.Assert("no_spurious_failure", err == nil)
	}
	if r.cancelAt > 0 && err != nil {
		verif.Assert("mid_run_cancellation_kind", commonerrors.Any(err, commonerrors.ErrCancelled, commonerrors.ErrEmpty))
	}
}

// VerifC09_Copy: CopyDataWithContext and CopyNWithContext.
func VerifC09_Copy() {
	ctx, cancel, r, content := vSetup()
	defer cancel()
	L := len(content)
	w := &vWriter{failAt: -1}
	if r.failAt < 0 && r.cancelAt == 0 && verif.Bool("writerFails") {
		w.failAt = verif.Len("wfailAt", 0, L)
	}
	preCancelled := ctx.Err() != nil
	useN := verif.Bool("copyN")
	var copied int64
	var err error
	n := int64(0)
	if useN {
		n = int64(verif.Len("n", 0, L+1))
		copied, err = CopyNWithContext(ctx, r, w, n)
	} else {
		copied, err = CopyDataWithContext(ctx, r, w)
	}
	verif.Assert("delivered_bytes_are_a_prefix_of_the_source", vPrefixOf(w.data, content))
	verif.Assert("no_read_after_context_ended", r.afterDone == 0)
	verif.Assert("copied_counts_delivered_bytes", copied == int64(len(w.data)) || err != nil)
	healthy := r.failAt < 0 && r.cancelAt == 0 && !preCancelled && w.failAt < 0
	if useN {
		if err == nil {
			verif.Assert("copyN_transfers_exactly_n", copied == n && int64(len(w.data)) == n)
		} else {
			verif.Assert("copyN_error_means_at_most_n", copied <= n)
		}
		if healthy && n <= int64(L) {
			verif.Assert("no_spurious_failure", err == nil)
		}
		if healthy && n > int64(L) {
			verif.Assert("short_source_is_an_eof_kind_error", err != nil && commonerrors.Any(err, commonerrors.ErrEOF))
		}
	} else {
		if err == nil {
			verif.Assert("copy_transfers_everything", vSame(w.data, content))
		}
		if healthy {
			verif.Assert("no_spurious_failure", err == nil)
		}
	}
	if preCancelled {
		verif.Assert("already_cancelled_changes_nothing", commonerrors.Any(err, commonerrors.ErrCancelled) && len(w.data) == 0 && r.calls == 0)
	}
}

// VerifC09_ConvertIOError: context and EOF conditions map to their kinds.
func VerifC09_ConvertIOError() {
	var in error
	var want error
	switch verif.Choice("err", 6) {
	case 0:
		in, want = context.Canceled, commonerrors.ErrCancelled
	case 1:
		in, want = context.DeadlineExceeded, commonerrors.ErrTimeout
	case 2:
		in, want = io.EOF, commonerrors.ErrEOF
	case 3:
		in, want = io.ErrUnexpectedEOF, commonerrors.ErrEOF
	case 4:
		in, want = commonerrors.New(commonerrors.ErrEOF, "x"), commonerrors.ErrEOF
	case 5:
		in, want = errVerifIO, errVerifIO
	}
	out := ConvertIOError(in)
	verif.Assert("io_error_kind", commonerrors.Any(out, want))
	verif.Assert("idempotent", commonerrors.Any(ConvertIOError(out), want))
	verif.Assert("nil_stays_nil", ConvertIOError(nil) == nil)
}

// chunkReader delivers concrete content in chunks of a fixed size.
type chunkReader struct {
	content []byte
	pos     int
	chunk   int
}

func (r *chunkReader) Read(p []byte) (int, error) {
	if r.pos >= len(r.content) {
		return 0, io.EOF
	}
	n := r.chunk
	if n > len(p) {
		n = len(p)
	}
	if n > len(r.content)-r.pos {
		n = len(r.content) - r.pos
	}
	copy(p, r.content[r.pos:r.pos+n])
	r.pos += n
	return n, nil
}

// VerifC09_BufferBoundaries: lengths around the buffer sizes used underneath
// (bytes.MinRead = 512, 1 KiB, 4 KiB, the 32 KiB of io.Copy), maxima just below,
// at and just above the length, several chunkings and buffer capacities:
// bounded reads and copies still deliver exact prefixes. Concrete content.
func VerifC09_BufferBoundaries() {
	lengths := []int{0, 1, 511, 512, 513, 1023, 1024, 1025, 4095, 4096, 4097}
	if verif.Tier() > 0 {
		lengths = append(lengths, 32767, 32768, 32769)
	}
	L := lengths[verif.Choice("L", len(lengths))]
	content := make([]byte, L)
	for i := range content {
		content[i] = byte(i % 251)
	}
	chunk := []int{7, 512, 4096, 1 << 20}[verif.Choice("chunk", 4)]
	var max int64
	switch verif.Choice("max", 4) {
	case 0:
		max = -1
	case 1:
		max = int64(L) - 1
	case 2:
		max = int64(L)
	case 3:
		max = int64(L) + 1
	}
	verif.Assume(max >= -1)
	bufCap := []int64{-1, 0, 1, 512, 513}[verif.Choice("bufCap", 5)]
	ctx := context.Background()
	want := L
	if max >= 0 && int(max) < L {
		want = int(max)
	}
	if verif.Bool("copy") {
		var dst bytes.Buffer
		var n int64
		var err error
		if max < 0 {
			n, err = CopyDataWithContext(ctx, &chunkReader{content: content, chunk: chunk}, &dst)
		} else {
			n, err = CopyNWithContext(ctx, &chunkReader{content: content, chunk: chunk}, &dst, max)
		}
		if max > int64(L) {
			verif.Assert("copy_n_beyond_the_source_is_an_error", err != nil)
		} else if want > 0 {
			verif.Assert("copy_succeeds", err == nil && n == int64(want))
		}
		verif.Assert("copied_bytes_are_a_prefix", dst.Len() <= L && bytes.Equal(dst.Bytes(), content[:dst.Len()]))
		if err == nil {
			verif.Assert("copy_transfers_exactly", dst.Len() == want)
		}
		return
	}
	got, err := ReadAtMost(ctx, &chunkReader{content: content, chunk: chunk}, max, bufCap)
	verif.Assert("content_is_a_prefix_of_the_source", len(got) <= L && bytes.Equal(got, content[:len(got)]))
	verif.Assert("never_more_than_max", max < 0 || int64(len(got)) <= max)
	if want > 0 {
		verif.Assert("no_spurious_failure", err == nil)
	}
	if err == nil {
		verif.Assert("success_delivers_exactly_the_prefix", len(got) == want)
	}
}
