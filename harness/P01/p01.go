package filesystem

import (
	"archive/zip"
	"bytes"
	"context"

	"github.com/spf13/afero"

	"github.com/ARM-software/golang-utils/utils/zz_verif/verif"
)

func VerifP01_Zip() {
	var buf bytes.Buffer
	w := zip.NewWriter(&buf)
	fw, err := w.CreateHeader(&zip.FileHeader{Name: "a/f.txt", Method: zip.Store})
	verif.Assert("create", err == nil)
	_, err = fw.Write([]byte("hello"))
	verif.Assert("write", err == nil)
	_, err = w.CreateHeader(&zip.FileHeader{Name: "d/", Method: zip.Store})
	verif.Assert("createdir", err == nil)
	verif.Assert("close", w.Close() == nil)
	mem := afero.NewMemMapFs()
	fs := NewVirtualFileSystem(mem, InMemoryFS, IdentityPathConverterFunc)
	verif.Assert("writefile", fs.WriteFile("/src/a.zip", buf.Bytes(), 0o644) == nil)
	list, err := fs.UnzipWithContext(context.Background(), "/src/a.zip", "/out")
	verif.Observe("err", err)
	verif.Observe("n", len(list))
	verif.Assert("unzip", err == nil)
	content, err := fs.ReadFile("/out/a/f.txt")
	verif.Assert("read", err == nil && string(content) == "hello")
}
