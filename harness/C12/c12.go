package parallelisation

import (
	"context"
	"errors"
	"reflect"
	"time"

	"github.com/ARM-software/golang-utils/utils/commonerrors"
	"github.com/ARM-software/golang-utils/utils/zz_verif/verif"
)

var errVerifAction = errors.New("verif: action failed")

const vTimeout = 10 * time.Millisecond

func vActionDuration() time.Duration {
	ds := []time.Duration{0, vTimeout - time.Millisecond, vTimeout, vTimeout + time.Millisecond, 5 * vTimeout}
	return ds[verif.Choice("actionDuration", len(ds))]
}

// VerifC12_RunActionWithTimeout: every completion instant relative to the
// deadline and every interleaving (preemption bound 2, timers may fire at any
// scheduling point).
func VerifC12_RunActionWithTimeout() {
	verif.ExploreSchedules(2)
	d := vActionDuration()
	fails := verif.Bool("actionFails")
	ignoresStop := verif.Bool("ignoresStopForAWhile")
	finished := false
	sawStop := false
	err := RunActionWithTimeout(func(stop chan bool) error {
		t := time.After(d)
		select {
		case <-stop:
			sawStop = true
			if ignoresStop {
				time.Sleep(time.Millisecond)
			}
			finished = true
			return errVerifAction
		case <-t:
		}
		finished = true
		if fails {
			return errVerifAction
		}
		return nil
	}, vTimeout)
	verif.Assert("returned_after_action_ended", finished)
	if commonerrors.Any(err, commonerrors.ErrTimeout) {
		verif.Assert("timeout_only_once_action_saw_its_stop_signal", sawStop)
	} else if sawStop {
		verif.Assert("stopped_action_is_a_timeout", false)
	} else if fails {
		verif.Assert("own_error_returned", err == errVerifAction)
	} else {
		verif.Assert("own_result_returned", err == nil)
	}
}

// VerifC12_RunActionWithTimeoutAndContext
func VerifC12_RunActionWithTimeoutAndContext() {
	// the real context package adds dozens of lock/atomic scheduling points per call:
	// one preemption in the quick tier, two in the thorough tier
	verif.ExploreSchedules(1 + verif.Tier())
	d := vActionDuration()
	fails := verif.Bool("actionFails")
	parent, cancelParent := context.WithCancel(context.Background())
	defer cancelParent()
	parentCase := verif.Choice("parent", 3) // live, cancelled before, cancelled during
	if parentCase == 1 {
		cancelParent()
	}
	var actionCtx context.Context
	finished := false
	sawDone := false
	started := false
	err := RunActionWithTimeoutAndContext(parent, vTimeout, func(ctx context.Context) error {
		started = true
		actionCtx = ctx
		if parentCase == 2 {
			cancelParent()
		}
		select {
		case <-ctx.Done():
			sawDone = true
			finished = true
			return ctx.Err()
		case <-time.After(d):
		}
		finished = true
		if fails {
			return errVerifAction
		}
		return nil
	})
	if parentCase == 1 {
		verif.Assert("cancelled_parent_reported", commonerrors.Any(err, commonerrors.ErrCancelled) && !started)
		return
	}
	verif.Assert("returned_after_action_ended", finished)
	verif.Assert("action_context_is_done_on_exit", actionCtx != nil && actionCtx.Err() != nil)
	if err == nil {
		verif.Assert("nil_means_action_succeeded_in_time", !fails && !sawDone)
	} else if !commonerrors.Any(err, commonerrors.ErrTimeout, commonerrors.ErrCancelled) {
		verif.Assert("own_error_returned", fails && err == errVerifAction)
	}
	if sawDone {
		verif.Assert("stopped_action_reports_context_kind", err != nil && commonerrors.Any(err, commonerrors.ErrTimeout, commonerrors.ErrCancelled))
	}
}

var errVerifInterrupted = errors.New("verif: action interrupted")

// VerifC12_RunActionWithParallelCheck: the cancellation runner whose stop
// signal comes from a periodic check (or from the parent context). The check
// gives up at its k-th call (period 4ms: at 0, 4, 8, 12ms, or never) against
// every action duration around it; an action that is stopped may report the
// context's error or an error of its own.
func VerifC12_RunActionWithParallelCheck() {
	verif.ExploreSchedules(1)
	d := vActionDuration()
	fails := verif.Bool("actionFails")
	ownErrorOnStop := verif.Bool("stoppedActionReportsItsOwnError")
	passes := []int{0, 1, 2, 3, 1 << 30}[verif.Choice("checksThatPass", 5)]
	parent, cancelParent := context.WithCancel(context.Background())
	defer cancelParent()
	parentCase := verif.Choice("parent", 3) // live, cancelled before, cancelled during
	if parentCase == 1 {
		cancelParent()
	}
	var actionCtx context.Context
	finished, sawDone, started := false, false, false
	checks := 0
	err := RunActionWithParallelCheck(parent, func(ctx context.Context) error {
		started = true
		actionCtx = ctx
		if parentCase == 2 {
			cancelParent()
		}
		select {
		case <-ctx.Done():
			sawDone = true
			finished = true
			if ownErrorOnStop {
				return errVerifInterrupted
			}
			return ctx.Err()
		case <-time.After(d):
		}
		finished = true
		if fails {
			return errVerifAction
		}
		return nil
	}, func(context.Context) bool {
		checks++
		return checks <= passes
	}, 4*time.Millisecond)
	if parentCase == 1 {
		verif.Assert("cancelled_parent_reported", commonerrors.Any(err, commonerrors.ErrCancelled) && !started)
		return
	}
	verif.Assert("returned_after_action_ended", finished)
	verif.Assert("action_context_is_done_on_exit", actionCtx != nil && actionCtx.Err() != nil)
	if err == nil {
		verif.Assert("nil_means_action_succeeded_unstopped", !fails && !sawDone)
	} else if !commonerrors.Any(err, commonerrors.ErrTimeout, commonerrors.ErrCancelled) {
		verif.Assert("own_error_only_from_an_unstopped_action", fails && !sawDone && err == errVerifAction)
	}
	if sawDone {
		verif.Assert("stopped_action_reports_context_kind", err != nil && commonerrors.Any(err, commonerrors.ErrTimeout, commonerrors.ErrCancelled))
	}
}

// VerifC12_Parallelise: once per argument, all results (as a multiset) or an
// error that some invocation returned.
func VerifC12_Parallelise() {
	verif.ExploreSchedules(1)
	n := verif.Len("n", 0, 3)
	args := make([]int, n)
	failAt := -1
	if n > 0 && verif.Bool("oneFails") {
		failAt = verif.Choice("failAt", n)
	}
	calls := make([]int, n)
	for i := range args {
		args[i] = i
	}
	res, err := Parallelise(args, func(arg interface{}) (interface{}, error) {
		k := arg.(int)
		calls[k]++
		if k == failAt {
			return nil, errVerifAction
		}
		return k * 10, nil
	}, reflect.TypeOf([]int{}))
	if failAt >= 0 {
		verif.Assert("an_invocation_error_is_returned", err == errVerifAction)
	} else {
		verif.Assert("no_error", err == nil)
		out, ok := res.([]int)
		verif.Assert("results_have_the_requested_type", ok && len(out) == n)
		seen := make([]int, n)
		for _, v := range out {
			if v%10 == 0 && v/10 < n {
				seen[v/10]++
			}
		}
		for i := range seen {
			verif.Assert("every_result_exactly_once", seen[i] == 1)
			verif.Assert("action_invoked_once_per_argument", calls[i] == 1)
		}
	}
}

// VerifC12_CancelStore: a Cancel that begins after a registration invokes the
// registered function, under concurrent Register / Cancel.
func VerifC12_CancelStore() {
	verif.ExploreSchedules(2)
	store := NewCancelFunctionsStore()
	calledA, calledB := 0, 0
	store.RegisterCancelFunction(func() { calledA++ })
	registeredB := false
	cancelStarted := false
	bBeforeCancel := false
	done := make(chan bool, 2)
	go func() {
		store.RegisterCancelFunction(func() { calledB++ })
		registeredB = true
		if !cancelStarted {
			bBeforeCancel = true
		}
		done <- true
	}()
	go func() {
		cancelStarted = true
		store.Cancel()
		done <- true
	}()
	<-done
	<-done
	verif.Assert("registered_before_cancel_is_invoked", calledA == 1)
	if bBeforeCancel {
		verif.Assert("registered_before_cancel_is_invoked", calledB == 1)
	}
	verif.Assert("never_invoked_twice_by_one_cancel", calledA <= 1 && calledB <= 1)
	verif.Assert("len_counts_registrations", !registeredB || store.Len() == 2)
}

// VerifC12_StoreCancelledMidFlight: the cancel store handed to the runner is
// cancelled from outside while the action is in flight; the action observes
// its stop signal and returns (swallowing it or not): the runner must report
// the cancellation, not the action's own result.
func VerifC12_StoreCancelledMidFlight() {
	store := NewCancelFunctionsStore()
	swallow := verif.Bool("actionSwallowsTheCancellation")
	viaGoroutine := verif.Bool("cancelFromAnotherGoroutine")
	sawDone := false
	err := RunActionWithTimeoutAndCancelStore(context.Background(), 5*vTimeout, store, func(ctx context.Context) error {
		if viaGoroutine {
			go store.Cancel()
		} else {
			store.Cancel()
		}
		select {
		case <-ctx.Done():
			sawDone = true
		case <-time.After(20 * vTimeout):
		}
		if swallow {
			return nil
		}
		return ctx.Err()
	})
	verif.Assert("action_observed_its_stop_signal", sawDone)
	verif.Assert("cancelled_store_is_reported_as_cancellation", err != nil && commonerrors.Any(err, commonerrors.ErrCancelled, commonerrors.ErrTimeout))
	// the deadline (5T) is far away: what stopped the action was the cancellation, and that is the kind reported
	verif.Assert("a_cancellation_is_not_reported_as_a_timeout", commonerrors.Any(err, commonerrors.ErrCancelled) && !commonerrors.Any(err, commonerrors.ErrTimeout))
}

// VerifC12_ConcurrentRegistrations: two goroutines register concurrently, with
// every memory access a scheduling point: no registration is lost and a later
// Cancel invokes both.
func VerifC12_ConcurrentRegistrations() {
	verif.ExploreSchedules(2)
	store := NewCancelFunctionsStore()
	calledA, calledB := 0, 0
	done := make(chan bool, 2)
	verif.ExploreMemory(true)
	go func() {
		store.RegisterCancelFunction(func() { calledA++ })
		done <- true
	}()
	go func() {
		store.RegisterCancelFunction(func() { calledB++ })
		done <- true
	}()
	<-done
	<-done
	verif.ExploreMemory(false)
	verif.Assert("no_registration_is_lost", store.Len() == 2)
	store.Cancel()
	verif.Assert("cancel_invokes_every_registered_function", calledA == 1 && calledB == 1)
}

// VerifC12_ParentCancelledWithCause: the parent context is cancelled with a
// cause (context.WithCancelCause), before the call or while the action runs:
// the runner still reports the 'cancelled' kind, not the cause.
func VerifC12_ParentCancelledWithCause() {
	parent, cancelWithCause := context.WithCancelCause(context.Background())
	defer cancelWithCause(nil)
	before := verif.Bool("cancelledBeforeTheCall")
	if before {
		cancelWithCause(errVerifAction)
	}
	started := false
	err := RunActionWithTimeoutAndContext(parent, 5*vTimeout, func(ctx context.Context) error {
		started = true
		cancelWithCause(errVerifAction)
		<-ctx.Done()
		return ctx.Err()
	})
	verif.Assert("cancelled_parent_reported", err != nil && commonerrors.Any(err, commonerrors.ErrCancelled))
	verif.Assert("not_started_when_already_cancelled", !before || !started)
}
