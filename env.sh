# Toolchain environment shared by setup.sh and check (sourced).
# The repository needs go1.24.1 (go.mod: toolchain go1.24.1, `tool` directive);
# it is present in the module cache because the baseline suite needs it.
VERIF_GOROOT=${VERIF_GOROOT:-/root/go/pkg/mod/golang.org/toolchain@v0.0.1-go1.24.1.linux-amd64}
if [ ! -x "$VERIF_GOROOT/bin/go" ]; then
  echo "env.sh: go1.24.1 toolchain not found at $VERIF_GOROOT" >&2
  exit 2
fi
export VERIF_GOROOT
export GOTOOLCHAIN=local GOROOT="$VERIF_GOROOT" PATH="$VERIF_GOROOT/bin:$PATH"
export GOFLAGS=-mod=mod GOPROXY=off CGO_ENABLED=0
